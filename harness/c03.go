package main

// C03 — decryption inverts encryption with noise inside a two-sided bound.
//
// Tie lines (model must reproduce the output exactly):
//   gensk   KeyGenerator.GenSecretKey          from the twin draw of xs
//   genpk   KeyGenerator.GenPublicKey          from the twin draws (a over QP, e)
//   enc     Encryptor.Encrypt / EncryptNew / EncryptZero / EncryptZeroNew on sk-, pk- and key-less
//           encryptors obtained by NewEncryptor, ShallowCopy, WithKey, WithPRNG
//   dec     Decryptor.Decrypt / DecryptNew
// The sampled polynomials are obtained by replaying the encryptor's samplers on a twin PRNG
// (c03_twin.go).  Probes (c03_probe.go) are the property's predicates evaluated on the real code.

import (
	"fmt"
	"math"
	"strings"

	"github.com/tuneinsight/lattigo/v6/core/rlwe"
	"github.com/tuneinsight/lattigo/v6/ring"
	"github.com/tuneinsight/lattigo/v6/utils/sampling"
)

func init() { register("C03", genC03) }

// c03Set is one parameter set with everything the generators need.
type c03Set struct {
	params  rlwe.Parameters
	N       int
	maxL    int
	nP      int
	ci      bool
	xeKind  string // g | tp | th   (Gaussian, Ternary{P}, Ternary{H})
	xsKind  string
	hdr     string // n= ci= q= p= maxl= xe=
	label   string
	Be, Bs  float64 // bound on |coefficient| of e resp. s/u
	Hs      float64 // bound on the 1-norm of s resp. u
	sigE    float64 // true nominal standard deviation of Xe
	sigS    float64
	wide    bool    // from c03_wide.go: non-default distributions on unequal primes
	kappa   float64 // 2 for the conjugate-invariant ring (‖fold a‖₁ ≤ 2‖a‖₁)
	sk, sk2 *rlwe.SecretKey
	pk      *rlwe.PublicKey
	dec     *rlwe.Decryptor
	dec2    *rlwe.Decryptor
	st      *c03Stats
}

func c03DistInfo(d ring.DistributionParameters, N int) (kind string, B, H, sigma float64) {
	switch x := d.(type) {
	case ring.DiscreteGaussian:
		B = math.Floor(x.Bound + 0.5)
		return "g", B, float64(N) * B, x.Sigma
	case ring.Ternary:
		if x.H != 0 {
			h := x.H
			if h > N {
				h = N
			}
			return "th", 1, float64(h), math.Sqrt(float64(h) / float64(N))
		}
		return "tp", 1, float64(N), math.Sqrt(x.P)
	}
	panic("dist")
}

func c03DistLabel(d ring.DistributionParameters) string {
	switch x := d.(type) {
	case ring.DiscreteGaussian:
		return fmt.Sprintf("G(%g,%g)", x.Sigma, x.Bound)
	case ring.Ternary:
		if x.H != 0 {
			return fmt.Sprintf("T(H=%d)", x.H)
		}
		return fmt.Sprintf("T(P=%.3g)", x.P)
	}
	return "?"
}

func c03NewSet(c *Ctx, lit rlwe.ParametersLiteral) *c03Set {
	params, err := rlwe.NewParametersFromLiteral(lit)
	if err != nil {
		if strings.Contains(err.Error(), "warning") {
			// NewParameters returns usable parameters together with a warning
		} else {
			return nil
		}
	}
	if params.RingQ() == nil {
		return nil
	}
	s := &c03Set{params: params, N: params.N(), maxL: params.MaxLevel(), nP: params.PCount(),
		ci: params.RingType() == ring.ConjugateInvariant, kappa: 1}
	if s.ci {
		s.kappa = 2
	}
	s.xeKind, s.Be, _, s.sigE = c03DistInfo(params.Xe(), s.N)
	s.xsKind, s.Bs, s.Hs, s.sigS = c03DistInfo(params.Xs(), s.N)
	ci := 0
	if s.ci {
		ci = 1
	}
	s.hdr = fmt.Sprintf("n=%d ci=%d q=%s p=%s maxl=%d xe=%s", s.N, ci, Vec(params.Q()), Vec(params.P()), s.maxL, s.xeKind)
	s.label = fmt.Sprintf("logN=%d ci=%d Q=%v P=%v Xs=%s Xe=%s", params.LogN(), ci, params.LogQi(), params.LogPi(),
		c03DistLabel(params.Xs()), c03DistLabel(params.Xe()))
	s.st = newC03Stats()
	return s
}

var c03Bits = []int{20, 23, 27, 30, 33, 36, 40, 45, 50, 55}

// c03RandomLiteral draws a small parameter literal.
func c03RandomLiteral(c *Ctx, idx int) rlwe.ParametersLiteral {
	r := c.rng
	logN := 4
	switch x := r.Intn(20); {
	case x < 11:
		logN = 4
	case x < 18:
		logN = 5
	default:
		logN = 6
	}
	nQ := 1 + r.Intn(3)
	nP := r.Intn(3)
	// make sure the first sets cover the main shapes
	switch idx {
	case 0:
		nQ, nP = 2, 1
	case 1:
		nQ, nP = 2, 0
	case 2:
		nQ, nP = 3, 2
	case 3:
		nQ, nP = 1, 0
	}
	logQ := make([]int, nQ)
	for i := range logQ {
		logQ[i] = c03Bits[r.Intn(len(c03Bits))]
	}
	var logP []int
	for i := 0; i < nP; i++ {
		logP = append(logP, c03Bits[r.Intn(len(c03Bits))])
	}
	N := 1 << logN
	var xs, xe ring.DistributionParameters
	switch r.Intn(6) {
	case 0, 1:
		xs = ring.Ternary{P: 2 / 3.0}
	case 2:
		xs = ring.Ternary{P: 0.5}
	case 3:
		xs = ring.Ternary{H: N / 2}
	case 4:
		xs = ring.Ternary{H: N / 4}
	default:
		xs = ring.DiscreteGaussian{Sigma: 3.2, Bound: 19.2}
	}
	switch r.Intn(8) {
	case 0, 1, 2:
		xe = ring.DiscreteGaussian{Sigma: 3.2, Bound: 19.2}
	case 3:
		xe = ring.DiscreteGaussian{Sigma: 1.5, Bound: 6}
	case 4:
		xe = ring.Ternary{P: 0.5}
	case 5:
		xe = ring.Ternary{P: 1 / 3.0}
	case 6:
		xe = ring.Ternary{H: N / 2}
	default:
		xe = ring.DiscreteGaussian{Sigma: 8, Bound: 40}
	}
	if idx < 4 {
		xs, xe = ring.Ternary{P: 2 / 3.0}, ring.DiscreteGaussian{Sigma: 3.2, Bound: 19.2}
	}
	rt := ring.Standard
	if r.Intn(4) == 0 && idx >= 2 {
		rt = ring.ConjugateInvariant
	}
	return rlwe.ParametersLiteral{LogN: logN, LogQ: logQ, LogP: logP, Xs: xs, Xe: xe, RingType: rt, NTTFlag: r.Intn(2) == 0}
}

func genC03(c *Ctx) {
	nSets := c.Scale(14, 120)
	encPerSet := c.Scale(60, 160)
	for i := 0; i < nSets; i++ {
		lit := c03RandomLiteral(c, i)
		s := c03NewSet(c, lit)
		if s == nil {
			c.Count("params:rejected")
			continue
		}
		c.Count("params:accepted")
		c.Count("params:ring:" + map[bool]string{false: "standard", true: "conjugate-invariant"}[s.ci])
		c.Count(fmt.Sprintf("params:nQ=%d,nP=%d", s.maxL+1, s.nP))
		c.Count("params:xe=" + s.xeKind)
		c.Count("params:xs=" + s.xsKind)
		c03RunSet(c, s, encPerSet)
	}
	c03RunWideSets(c)
	c03DeclaredStd(c)
}

// c03RunSet: key generation ties, then a sequence of encryptor operations kept in lockstep with
// their twins, each followed by decryption ties and probes.
func c03RunSet(c *Ctx, s *c03Set, nEnc int) {
	params := s.params

	// ---- key generator: NewKeyGenerator -> NewEncryptor(params, nil): two PRNGs are created, the
	// second one is the generator's.
	mark := RandMark()
	kgen := rlwe.NewKeyGenerator(params)
	if got := len(RandKeysSince(mark)); got != 2 {
		panic(fmt.Sprintf("C03: NewKeyGenerator made %d crypto/rand reads, the replay assumes 2", got))
	}
	ktw := newC03Twin(params, TwinPRNG(mark, 1))

	// GenSecretKey (twice: sk and an independent sk2 for wrong_key_far)
	for k := 0; k < 2; k++ {
		sk := kgen.GenSecretKeyNew()
		draw := ktw.drawS(s.maxL)
		c.Emit("gensk "+s.hdr+" draw="+c03Q(s, draw, s.maxL, false),
			"skq="+c03Q(s, sk.Value.Q, s.maxL, true)+" skp="+c03P(s, sk.Value.P, s.nP-1))
		c.Count("op:gensk")
		if k == 0 {
			s.sk = sk
		} else {
			s.sk2 = sk
		}
	}
	// GenSecretKeyWithHammingWeight (same model op: the stored key is MForm(ext(draw)))
	{
		hw := 1 + c.rng.Intn(s.N)
		skh := kgen.GenSecretKeyWithHammingWeightNew(hw)
		draw := ktw.drawSH(hw)
		c.Emit("gensk "+s.hdr+" draw="+c03Q(s, draw, s.maxL, false),
			"skq="+c03Q(s, skh.Value.Q, s.maxL, true)+" skp="+c03P(s, skh.Value.P, s.nP-1))
		c.Count("op:gensk(hw)")
		nz := 0
		for _, x := range Canon(params.RingQ(), draw, false, false)[0] {
			if x != 0 {
				nz++
			}
		}
		detail := ""
		if nz != hw {
			detail = fmt.Sprintf("asked hw=%d, key has %d non-zero coefficients", hw, nz)
		}
		c.Probe("sk_hamming_weight", fmt.Sprintf("%s hw=%d", s.hdr, hw), "C03-sk-hamming-weight", detail)
	}
	// GenPublicKey
	pk := rlwe.NewPublicKey(params)
	kgen.GenPublicKey(s.sk, pk)
	s.pk = pk
	{
		a := ktw.drawAQP(s.maxL, s.nP-1)
		e := ktw.drawE(s.maxL)
		c.Emit("genpk "+s.hdr+" aq="+c03Q(s, a.Q, s.maxL, true)+" ap="+c03P(s, a.P, s.nP-1)+
			" e="+c03Q(s, e, s.maxL, false)+" "+c03SkTok(s, s.sk),
			c03PkTok(s, pk))
		c.Count("op:genpk")
		c03ProbePublicKey(c, s, pk, e)
	}
	s.dec = rlwe.NewDecryptor(params, s.sk)
	s.dec2 = rlwe.NewDecryptor(params, s.sk2)

	pool := c03NewPool(c, s)
	for i := 0; i < nEnc; i++ {
		// sometimes derive a new encryptor variant
		if c.rng.Intn(5) == 0 {
			pool.derive(c, s)
		}
		v := pool.pick(c)
		if !c03OneEncryption(c, s, v) {
			// the real code panicked: sampler states may be out of step, start afresh
			pool = c03NewPool(c, s)
		}
	}
	c03ShallowCopyPRNG(c, s)
	c03Unsupported(c, s)
	c03DecryptJunk(c, s, c.Scale(6, 16))
	c03KeygenReused(c, s)
	c03DecryptReusedReceiver(c, s)
	c03DerivedObjects(c, s)
	c03HistoryProbes(c, s)
	c03Statistics(c, s)
}

// ---------------------------------------------------------------------------------------------
// encryptor variants

type c03Variant struct {
	enc  *rlwe.Encryptor
	tw   *c03Twin
	key  string // sk | pk | none
	how  string // constructor chain, for the statistics
	seed []byte // key of the PRNG installed by WithPRNG (nil if none)
}

type c03Pool struct{ vs []*c03Variant }

func c03NewEncryptor(s *c03Set, key string) *c03Variant {
	mark := RandMark()
	var enc *rlwe.Encryptor
	want := 1
	switch key {
	case "sk":
		enc = rlwe.NewEncryptor(s.params, s.sk)
	case "pk":
		enc = rlwe.NewEncryptor(s.params, s.pk)
	default:
		enc = rlwe.NewEncryptor(s.params, nil)
		want = 2
	}
	if got := len(RandKeysSince(mark)); got != want {
		panic(fmt.Sprintf("C03: NewEncryptor(%s) made %d crypto/rand reads, the replay assumes %d", key, got, want))
	}
	return &c03Variant{enc: enc, tw: newC03Twin(s.params, TwinPRNG(mark, want-1)), key: key, how: "New"}
}

func c03NewPool(c *Ctx, s *c03Set) *c03Pool {
	p := &c03Pool{}
	p.vs = append(p.vs, c03NewEncryptor(s, "sk"), c03NewEncryptor(s, "pk"))
	return p
}

func (p *c03Pool) pick(c *Ctx) *c03Variant { return p.vs[c.rng.Intn(len(p.vs))] }

func (p *c03Pool) derive(c *Ctx, s *c03Set) {
	src := p.pick(c)
	var v *c03Variant
	switch c.rng.Intn(4) {
	case 0: // ShallowCopy: NewEncryptor(params, key) — a fresh system PRNG
		mark := RandMark()
		enc := src.enc.ShallowCopy()
		want := 1
		if src.key == "none" {
			want = 2
		}
		if got := len(RandKeysSince(mark)); got != want {
			panic(fmt.Sprintf("C03: ShallowCopy made %d crypto/rand reads, the replay assumes %d", got, want))
		}
		v = &c03Variant{enc: enc, tw: newC03Twin(s.params, TwinPRNG(mark, want-1)), key: src.key, how: src.how + ".ShallowCopy"}
	case 1: // WithKey: shares every sampler with the receiver
		nk := []string{"sk", "pk", "sk", "pk", "nil"}[c.rng.Intn(5)]
		var enc *rlwe.Encryptor
		key := nk
		switch nk {
		case "sk":
			enc = src.enc.WithKey(s.sk)
		case "pk":
			enc = src.enc.WithKey(s.pk)
		default:
			enc = src.enc.WithKey(nil) // keeps the receiver's key
			key = src.key
		}
		v = &c03Variant{enc: enc, tw: src.tw, key: key, how: src.how + ".WithKey(" + nk + ")", seed: src.seed}
	case 2: // WithPRNG: new uniform sampler on the given PRNG, error/secret samplers shared
		seed := c.rng.Bytes(32)
		pa, _ := sampling.NewKeyedPRNG(seed)
		pb, _ := sampling.NewKeyedPRNG(seed)
		v = &c03Variant{enc: src.enc.WithPRNG(pa), tw: src.tw.withPRNG(pb), key: src.key, how: src.how + ".WithPRNG", seed: seed}
	default: // a key-less encryptor (must answer with an error)
		v = c03NewEncryptor(s, "none")
	}
	c.Count("derive:" + v.how[strings.LastIndex(v.how, ".")+1:])
	if len(p.vs) >= 8 {
		p.vs[2+c.rng.Intn(len(p.vs)-2)] = v
	} else {
		p.vs = append(p.vs, v)
	}
}

// ---------------------------------------------------------------------------------------------
// one encryption: tie line + decryption tie + probes

func c03RandMeta(c *Ctx, s *c03Set) *rlwe.MetaData {
	r := c.rng
	md := &rlwe.MetaData{}
	switch r.Intn(4) {
	case 0:
		md.Scale = rlwe.NewScale(1)
	case 1:
		md.Scale = rlwe.NewScale(r.U64()>>uint(r.Intn(60)) + 1)
	case 2:
		md.Scale = rlwe.NewScale(math.Ldexp(float64(r.U64()>>11)+1, -r.Intn(40)))
	default:
		md.Scale = rlwe.NewScaleModT(r.U64()>>40+1, 65537)
	}
	md.LogDimensions = ring.Dimensions{Rows: r.Intn(2), Cols: r.Intn(s.params.LogN() + 1)}
	md.IsBatched = r.Intn(2) == 0
	md.IsBitReversed = r.Intn(2) == 0
	md.IsNTT = r.Intn(2) == 0
	md.IsMontgomery = r.Intn(4) == 0
	return md
}

// c03MetaStr is the canonical text of the plaintext part of the metadata.
func c03MetaStr(md *rlwe.MetaData) string {
	mod := "-"
	if md.Scale.Mod != nil {
		mod = md.Scale.Mod.String()
	}
	return fmt.Sprintf("%s:%d:%s:%d:%d:%d:%d", md.Scale.Value.Text('p', 0), md.Scale.Value.Prec(), mod,
		md.LogDimensions.Rows, md.LogDimensions.Cols, c03B2i(md.IsBatched), c03B2i(md.IsBitReversed))
}

func c03B2i(b bool) int {
	if b {
		return 1
	}
	return 0
}

func c03RandPoly(c *Ctx, s *c03Set, p ring.Poly, style int) {
	qs := s.params.Q()
	for i := range p.Coeffs {
		q := qs[i]
		for j := range p.Coeffs[i] {
			switch style {
			case 0:
				p.Coeffs[i][j] = c.rng.Below(q)
			case 1:
				p.Coeffs[i][j] = 0
			case 2:
				p.Coeffs[i][j] = q - 1
			default:
				p.Coeffs[i][j] = uint64(c.rng.Intn(5))
			}
		}
	}
}

func c03OneEncryption(c *Ctx, s *c03Set, v *c03Variant) (alive bool) {
	r := c.rng
	params := s.params
	api := []string{"Encrypt", "Encrypt", "Encrypt", "EncryptNew", "EncryptZero", "EncryptZeroNew", "EncryptNil"}[r.Intn(7)]
	deg := []int{1, 1, 1, 1, 0, 2, 2, 3}[r.Intn(8)]
	lc := r.Intn(s.maxL + 1)
	if r.Intn(3) == 0 {
		lc = s.maxL
	}
	lp := r.Intn(s.maxL + 1)
	if r.Intn(2) == 0 {
		lp = lc
	}
	hasPt := api == "Encrypt" || api == "EncryptNew"
	var pt *rlwe.Plaintext
	var ct *rlwe.Ciphertext
	junk := false
	switch api {
	case "EncryptNew":
		deg, lc = 1, lp
		ct = rlwe.NewCiphertext(params, 1, lp) // what EncryptNew allocates
	case "EncryptZeroNew":
		deg = 1
		ct = rlwe.NewCiphertext(params, 1, lc)
	default:
		ct = rlwe.NewCiphertext(params, deg, lc)
		*ct.MetaData = *c03RandMeta(c, s)
		if r.Intn(3) == 0 { // a re-used ciphertext
			junk = true
			for i := range ct.Value {
				c03RandPoly(c, s, ct.Value[i], 0)
			}
		}
	}
	if hasPt {
		pt = rlwe.NewPlaintext(params, lp)
		*pt.MetaData = *c03RandMeta(c, s)
		c03RandPoly(c, s, pt.Value, []int{0, 0, 0, 1, 2, 3}[r.Intn(6)])
	}
	level := lc
	if hasPt && lp < lc {
		level = lp
	}
	// flags that govern EncryptZero
	flags := ct.MetaData
	if hasPt {
		flags = pt.MetaData
	}
	isNTT, isMont := flags.IsNTT, flags.IsMontgomery

	ringLc := params.RingQ().AtLevel(lc)
	oldStr := make([]string, len(ct.Value))
	for i := range ct.Value {
		oldStr[i] = Mat(Canon(ringLc, ct.Value[i], isNTT, false))
	}
	line := fmt.Sprintf("enc %s key=%s deg=%d lc=%d cntt=%d cmont=%d cmeta=%s old=%s", s.hdr, v.key, deg, lc,
		c03B2i(ct.IsNTT), c03B2i(ct.IsMontgomery), c03MetaStr(ct.MetaData), strings.Join(oldStr, "|"))
	var ptIn *rlwe.Plaintext
	if hasPt {
		line += fmt.Sprintf(" haspt=1 lp=%d pntt=%d pmont=%d pmeta=%s pt=%s", lp, c03B2i(pt.IsNTT), c03B2i(pt.IsMontgomery),
			c03MetaStr(pt.MetaData), Mat(Canon(params.RingQ().AtLevel(lp), pt.Value, pt.IsNTT, false)))
		ptIn = pt.CopyNew()
	} else {
		line += " haspt=0"
	}

	// ---- the real call
	var err error
	out := Try(func() string {
		switch api {
		case "Encrypt":
			err = v.enc.Encrypt(pt, ct)
		case "EncryptNil":
			err = v.enc.Encrypt(nil, ct)
		case "EncryptZero":
			err = v.enc.EncryptZero(ct)
		case "EncryptNew":
			if v.key == "none" {
				var ct2 *rlwe.Ciphertext
				ct2, err = v.enc.EncryptNew(pt)
				if err == nil {
					ct = ct2
				}
			} else {
				ct, err = v.enc.EncryptNew(pt)
			}
		case "EncryptZeroNew":
			if v.key == "none" {
				// EncryptZeroNew panics on the error by design ("sanity check"); use EncryptZero
				err = v.enc.EncryptZero(ct)
			} else {
				ct = v.enc.EncryptZeroNew(lc)
			}
		}
		if err != nil {
			return "err"
		}
		return c03CtOut(s, ct)
	})

	// ---- the twin draws, in the order the model prescribes
	var tA, tU, tE0, tE1 ring.Poly
	twinOK := true
	func() {
		defer func() {
			if recover() != nil {
				twinOK = false
			}
		}()
		switch v.key {
		case "sk":
			tA = v.tw.drawA(level)
			tE0 = v.tw.drawE(level)
			line += " a=" + c03Q(s, tA, level, isNTT) + " e0=" + c03Q(s, tE0, level, false) + " " + c03SkTok(s, s.sk)
		case "pk":
			tU = v.tw.drawS(level)
			tE0 = v.tw.drawE(level)
			tE1 = v.tw.drawE(level)
			line += " u=" + c03Q(s, tU, level, false) + " e0=" + c03Q(s, tE0, level, false) + " e1=" + c03Q(s, tE1, level, false) +
				" " + c03PkTok(s, s.pk)
		}
	}()
	if !twinOK {
		panic("C03: twin replay panicked")
	}
	c.Emit(line, out)
	c.Count("op:enc")
	c.Count("enc:api=" + api)
	c.Count("enc:key=" + v.key + map[bool]string{true: "+P", false: ""}[v.key == "pk" && s.nP > 0])
	c.Count(fmt.Sprintf("enc:deg=%d", deg))
	c.Count(fmt.Sprintf("enc:ntt=%d,mont=%d", c03B2i(isNTT), c03B2i(isMont)))
	c.Count("enc:how=" + v.how[strings.LastIndex(v.how, ".")+1:])
	if level < s.maxL {
		c.Count("enc:level<max")
	} else {
		c.Count("enc:level=max")
	}
	if junk {
		c.Count("enc:reused-ct")
	}
	c.Count("enc:out=" + map[bool]string{true: out, false: "ok"}[out == "err" || out == "panic"])
	if out == "panic" {
		// a panic is the documented outcome only for a target without room for c1 under a public key
		if !(v.key == "pk" && deg == 0) {
			key := "C03-encrypt-panics"
			if s.xeKind != "g" && !isNTT && level < s.maxL {
				key = "C03-ternary-atlevel-panic"
			}
			c.Probe("encrypt_total", fmt.Sprintf("%s key=%s api=%s deg=%d level=%d ntt=%d mont=%d seed=%d", s.hdr, c03Path(s, v.key), api, deg,
				level, c03B2i(isNTT), c03B2i(isMont), c.Seed), key, "Encrypt panicked on an accepted parameter set and a well-formed target ("+s.label+")")
		}
		return false
	}
	if out == "err" {
		return true
	}

	// ---- decryption tie on the fresh ciphertext
	c03DecTie(c, s, ct, r.Intn(s.maxL+1), r.Intn(2) == 0)

	// ---- probes
	c03ProbeEncryption(c, s, v, api, deg, level, junk, ct, ptIn, tA, tE0, tU, tE1)
	return true
}

func c03CtOut(s *c03Set, ct *rlwe.Ciphertext) string {
	l := ct.Level()
	rg := s.params.RingQ().AtLevel(l)
	parts := make([]string, len(ct.Value))
	for i := range ct.Value {
		parts[i] = Mat(Canon(rg, ct.Value[i], ct.IsNTT, false))
	}
	return fmt.Sprintf("ok lvl=%d ntt=%d mont=%d meta=%s ct=%s", l, c03B2i(ct.IsNTT), c03B2i(ct.IsMontgomery), c03MetaStr(ct.MetaData),
		strings.Join(parts, "|"))
}

// c03DecTie emits the Decrypt / DecryptNew tie for ct.
func c03DecTie(c *Ctx, s *c03Set, ct *rlwe.Ciphertext, lpt int, useNew bool) {
	params := s.params
	lc := ct.Level()
	rg := params.RingQ().AtLevel(lc)
	parts := make([]string, len(ct.Value))
	for i := range ct.Value {
		parts[i] = Mat(Canon(rg, ct.Value[i], ct.IsNTT, false))
	}
	if useNew {
		lpt = lc
	}
	if deg := len(ct.Value) - 1; deg&7 == 7 && !ct.IsNTT {
		// degree 7 mod 8 outside the NTT domain: the final Reduce of Decrypt matters (fix C03-6); besides the
		// tie, cross-check against the NTT-domain path.
		c03ProbeDecryptDeg7(c, s, ct)
	}
	line := fmt.Sprintf("dec %s lc=%d lpt=%d ntt=%d mont=%d meta=%s ct=%s %s", s.hdr, lc, lpt, c03B2i(ct.IsNTT), c03B2i(ct.IsMontgomery),
		c03MetaStr(ct.MetaData), strings.Join(parts, "|"), c03SkTok(s, s.sk))
	var pt *rlwe.Plaintext
	out := Try(func() string {
		if useNew {
			pt = s.dec.DecryptNew(ct)
		} else {
			pt = rlwe.NewPlaintext(params, lpt)
			*pt.MetaData = *c03RandMeta(c, s)
			s.dec.Decrypt(ct, pt)
		}
		l := pt.Level()
		return fmt.Sprintf("ok lvl=%d ntt=%d mont=%d meta=%s pt=%s", l, c03B2i(pt.IsNTT), c03B2i(pt.IsMontgomery), c03MetaStr(pt.MetaData),
			Mat(Canon(params.RingQ().AtLevel(l), pt.Value, pt.IsNTT, false)))
	})
	c.Emit(line, out)
	c.Count("op:dec")
	c.Count(fmt.Sprintf("dec:deg=%d", len(ct.Value)-1))
	if out != "panic" && !useNew {
		detail := ""
		if pt.Value.Level() != pt.Level() {
			detail = fmt.Sprintf("after Decrypt pt.Level()=%d but pt.Value.Level()=%d (ct level %d, pt allocated at %d)", pt.Level(), pt.Value.Level(), lc, lpt)
		}
		c.Probe("pt_value_level", fmt.Sprintf("%s lc=%d lpt=%d", s.hdr, lc, lpt), "C03-plaintext-value-level", detail)
	}
}

// c03DecryptJunk: Decrypt on arbitrary ciphertexts of degree 0..9 (covers the periodic Reduce).
func c03DecryptJunk(c *Ctx, s *c03Set, n int) {
	for i := 0; i < n; i++ {
		deg := c.rng.Intn(10)
		if i == 0 {
			deg = 8
		}
		lc := c.rng.Intn(s.maxL + 1)
		ct := rlwe.NewCiphertext(s.params, deg, lc)
		*ct.MetaData = *c03RandMeta(c, s)
		for j := range ct.Value {
			c03RandPoly(c, s, ct.Value[j], []int{0, 0, 2, 3}[c.rng.Intn(4)])
		}
		c03DecTie(c, s, ct, c.rng.Intn(s.maxL+1), c.rng.Intn(3) == 0)
	}
}

// ---------------------------------------------------------------------------------------------
// canonical tokens

// c03Q: canonical rows 0..level of a polynomial over Q (coefficient domain, Montgomery factor kept).
func c03Q(s *c03Set, p ring.Poly, level int, isNTT bool) string {
	return Mat(Canon(s.params.RingQ().AtLevel(level), p, isNTT, false))
}

// c03P: canonical rows over P (stored values are in the NTT domain), "-" when there is no P.
func c03P(s *c03Set, p ring.Poly, levelP int) string {
	if levelP < 0 || s.params.RingP() == nil {
		return "-"
	}
	return Mat(Canon(s.params.RingP().AtLevel(levelP), p, true, false))
}

func c03SkTok(s *c03Set, sk *rlwe.SecretKey) string {
	return "skq=" + c03Q(s, sk.Value.Q, s.maxL, true) + " skp=" + c03P(s, sk.Value.P, s.nP-1)
}

func c03PkTok(s *c03Set, pk *rlwe.PublicKey) string {
	return "pk0q=" + c03Q(s, pk.Value[0].Q, s.maxL, true) + " pk0p=" + c03P(s, pk.Value[0].P, s.nP-1) +
		" pk1q=" + c03Q(s, pk.Value[1].Q, s.maxL, true) + " pk1p=" + c03P(s, pk.Value[1].P, s.nP-1)
}

// c03Unsupported: malformed targets must be answered with an error value (not a panic, not success).
func c03Unsupported(c *Ctx, s *c03Set) {
	pt := rlwe.NewPlaintext(s.params, s.maxL)
	for _, key := range []string{"sk", "pk", "none"} {
		v := c03NewEncryptor(s, key)
		for _, tgt := range []struct {
			name string
			v    interface{}
		}{{"plaintext", pt}, {"int", 42}, {"nil", nil}, {"ct-by-value", *rlwe.NewCiphertext(s.params, 1, s.maxL)}} {
			out := Try(func() string {
				if err := v.enc.Encrypt(pt, tgt.v); err != nil {
					return "err"
				}
				return "ok"
			})
			out2 := Try(func() string {
				if err := v.enc.EncryptZero(tgt.v); err != nil {
					return "err"
				}
				return "ok"
			})
			detail := ""
			if out != "err" || out2 != "err" {
				detail = fmt.Sprintf("Encrypt -> %s, EncryptZero -> %s (want err, err)", out, out2)
			}
			c.Probe("unsupported_target_errors", fmt.Sprintf("%s key=%s target=%s", s.hdr, key, tgt.name), "C03-unsupported-target", detail)
		}
	}
}
