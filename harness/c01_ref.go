package main

import (
	"fmt"
	"math/big"
	"os"
	"path/filepath"
	"regexp"
	"strconv"

	"github.com/tuneinsight/lattigo/v6/ring"
)

// Reference semantics of the SubRing vector operations over the integers (math/big), used by the
// probes of C01: result ≡ exact operation (mod q) and inside the range the doc comment of
// ring/subring_ops.go states (rangeK*q - rangeOff >= out; rangeK = 0: no documented range).
type vecRef struct {
	name     string
	ref      func(x, y, z, s0, s1, q, winv *big.Int) *big.Int
	rangeK   uint64 // documented: out <= rangeK*q - rangeOff
	rangeOff uint64
	exact    bool // result is the exact integer (no reduction): compared as integers
}

func bi(x uint64) *big.Int { return new(big.Int).SetUint64(x) }

func mul(a ...*big.Int) *big.Int {
	r := big.NewInt(1)
	for _, x := range a {
		r.Mul(r, x)
	}
	return r
}
func add(a, b *big.Int) *big.Int { return new(big.Int).Add(a, b) }
func sub(a, b *big.Int) *big.Int { return new(big.Int).Sub(a, b) }

var wBig = new(big.Int).Lsh(big.NewInt(1), 64)

var vecRefs = []vecRef{
	{"Add", func(x, y, z, s0, s1, q, wi *big.Int) *big.Int { return add(x, y) }, 1, 1, false},
	{"AddLazy", func(x, y, z, s0, s1, q, wi *big.Int) *big.Int { return add(x, y) }, 0, 0, true},
	{"Sub", func(x, y, z, s0, s1, q, wi *big.Int) *big.Int { return sub(x, y) }, 1, 1, false},
	{"SubLazy", func(x, y, z, s0, s1, q, wi *big.Int) *big.Int { return sub(x, y) }, 2, 1, false},
	{"Neg", func(x, y, z, s0, s1, q, wi *big.Int) *big.Int { return new(big.Int).Neg(x) }, 0, 0, false},
	{"Reduce", func(x, y, z, s0, s1, q, wi *big.Int) *big.Int { return x }, 1, 1, false},
	{"ReduceLazy", func(x, y, z, s0, s1, q, wi *big.Int) *big.Int { return x }, 2, 1, false},
	{"MulCoeffsBarrett", func(x, y, z, s0, s1, q, wi *big.Int) *big.Int { return mul(x, y) }, 1, 1, false},
	{"MulCoeffsBarrettLazy", func(x, y, z, s0, s1, q, wi *big.Int) *big.Int { return mul(x, y) }, 2, 1, false},
	{"MulCoeffsBarrettThenAdd", func(x, y, z, s0, s1, q, wi *big.Int) *big.Int { return add(z, mul(x, y)) }, 1, 1, false},
	{"MulCoeffsBarrettThenAddLazy", func(x, y, z, s0, s1, q, wi *big.Int) *big.Int { return add(z, mul(x, y)) }, 2, 1, false},
	{"MulCoeffsMontgomery", func(x, y, z, s0, s1, q, wi *big.Int) *big.Int { return mul(x, y, wi) }, 1, 1, false},
	{"MulCoeffsMontgomeryLazy", func(x, y, z, s0, s1, q, wi *big.Int) *big.Int { return mul(x, y, wi) }, 2, 1, false},
	{"MulCoeffsMontgomeryThenAdd", func(x, y, z, s0, s1, q, wi *big.Int) *big.Int { return add(z, mul(x, y, wi)) }, 1, 1, false},
	{"MulCoeffsMontgomeryThenAddLazy", func(x, y, z, s0, s1, q, wi *big.Int) *big.Int { return add(z, mul(x, y, wi)) }, 2, 1, false},
	{"MulCoeffsMontgomeryLazyThenAddLazy", func(x, y, z, s0, s1, q, wi *big.Int) *big.Int { return add(z, mul(x, y, wi)) }, 3, 2, false},
	{"MulCoeffsMontgomeryThenSub", func(x, y, z, s0, s1, q, wi *big.Int) *big.Int { return sub(z, mul(x, y, wi)) }, 1, 1, false},
	{"MulCoeffsMontgomeryThenSubLazy", func(x, y, z, s0, s1, q, wi *big.Int) *big.Int { return sub(z, mul(x, y, wi)) }, 2, 1, false},
	{"MulCoeffsMontgomeryLazyThenSubLazy", func(x, y, z, s0, s1, q, wi *big.Int) *big.Int { return sub(z, mul(x, y, wi)) }, 3, 2, false},
	{"MulCoeffsMontgomeryLazyThenNeg", func(x, y, z, s0, s1, q, wi *big.Int) *big.Int { return new(big.Int).Neg(mul(x, y, wi)) }, 2, 1, false},
	{"AddLazyThenMulScalarMontgomery", func(x, y, z, s0, s1, q, wi *big.Int) *big.Int { return mul(add(x, y), s0, wi) }, 1, 1, false},
	{"AddScalarLazyThenMulScalarMontgomery", func(x, y, z, s0, s1, q, wi *big.Int) *big.Int { return mul(add(x, s0), s1, wi) }, 1, 1, false},
	{"AddScalar", func(x, y, z, s0, s1, q, wi *big.Int) *big.Int { return add(x, s0) }, 1, 1, false},
	{"AddScalarLazy", func(x, y, z, s0, s1, q, wi *big.Int) *big.Int { return add(x, s0) }, 0, 0, true},
	{"AddScalarLazyThenNegTwoModulusLazy", func(x, y, z, s0, s1, q, wi *big.Int) *big.Int { return sub(s0, x) }, 0, 0, false},
	{"SubScalar", func(x, y, z, s0, s1, q, wi *big.Int) *big.Int { return sub(x, s0) }, 1, 1, false},
	{"MulScalarMontgomery", func(x, y, z, s0, s1, q, wi *big.Int) *big.Int { return mul(x, s0, wi) }, 1, 1, false},
	{"MulScalarMontgomeryLazy", func(x, y, z, s0, s1, q, wi *big.Int) *big.Int { return mul(x, s0, wi) }, 2, 1, false},
	{"MulScalarMontgomeryThenAdd", func(x, y, z, s0, s1, q, wi *big.Int) *big.Int { return add(z, mul(x, s0, wi)) }, 1, 1, false},
	{"MulScalarMontgomeryThenAddScalar", func(x, y, z, s0, s1, q, wi *big.Int) *big.Int { return add(s0, mul(x, s1, wi)) }, 1, 1, false},
	{"SubThenMulScalarMontgomeryTwoModulus", func(x, y, z, s0, s1, q, wi *big.Int) *big.Int { return mul(sub(x, y), s0, wi) }, 1, 1, false},
	{"MForm", func(x, y, z, s0, s1, q, wi *big.Int) *big.Int { return mul(x, wBig) }, 1, 1, false},
	{"MFormLazy", func(x, y, z, s0, s1, q, wi *big.Int) *big.Int { return mul(x, wBig) }, 2, 1, false},
	{"IMForm", func(x, y, z, s0, s1, q, wi *big.Int) *big.Int { return mul(x, wi) }, 1, 1, false},
}

// docRanges reads the output range each SubRing method DOCUMENTS from the doc comments of
// ring/subring_ops.go in the repository under test ("… in (the) range [0, K*modulus-O]").
func docRanges() map[string][2]uint64 {
	out := map[string][2]uint64{}
	b, err := os.ReadFile(filepath.Join(repoPath(), "ring/subring_ops.go"))
	if err != nil {
		return out
	}
	re := regexp.MustCompile(`(?m)^// (\w+) evaluates .* in (?:the )?(?:range )?\[0, (\d+)\*?modulus-(\d+)\]`)
	for _, m := range re.FindAllStringSubmatch(string(b), -1) {
		k, _ := strconv.ParseUint(m[2], 10, 64)
		o, _ := strconv.ParseUint(m[3], 10, 64)
		out[m[1]] = [2]uint64{k, o}
	}
	return out
}

var docRangeOverride = docRanges()

// probeVecRefs runs every SubRing vector operation on reduced inputs (the documented input range)
// and checks congruence to the integer reference and the documented output range.
func probeVecRefs(c *Ctx, s *ring.SubRing, N int) {
	q := s.Modulus
	Q := bi(q)
	winv := new(big.Int).ModInverse(wBig, Q)
	r := c.rng
	byName := map[string]vecOp{}
	for _, o := range vecOps {
		byName[o.name] = o
	}
	for _, vr := range vecRefs {
		op := byName[vr.name]
		// documented input ranges: reduced by default; lazy where the operation accepts it
		b1, b2 := q, q
		if r.Intn(2) == 0 {
			switch vr.name {
			case "SubThenMulScalarMontgomeryTwoModulus":
				b2 = 2 * q // p2 in [0, 2q-1]: the kernel adds 2q before subtracting
			case "AddScalarLazyThenNegTwoModulusLazy":
				b1 = 2 * q
			case "Reduce", "ReduceLazy", "MForm", "MFormLazy":
				b1 = ^uint64(0)
			case "MulCoeffsBarrett", "MulCoeffsBarrettLazy":
				b1, b2 = ^uint64(0), ^uint64(0)
			case "MulCoeffsMontgomery", "MulCoeffsMontgomeryLazy", "MulScalarMontgomery", "MulScalarMontgomeryLazy", "IMForm":
				b1 = ^uint64(0) // x*y < q*2^64 holds for any x when y < q
			}
		}
		p1 := patVec(r, c.pat(), N, b1)
		p2 := patVec(r, c.pat(), N, b2)
		p3 := patVec(r, c.pat(), N, q)
		s0, s1 := r.Below(q), r.Below(q)
		out := append([]uint64(nil), p3...)
		op.f(s, p1, p2, out, s0, s1)
		detail := ""
		rk, ro := vr.rangeK, vr.rangeOff
		if o, ok := docRangeOverride[vr.name]; ok {
			rk, ro = o[0], o[1]
		}
		for i := 0; i < N && detail == ""; i++ {
			want := vr.ref(bi(p1[i]), bi(p2[i]), bi(p3[i]), bi(s0), bi(s1), Q, winv)
			if vr.exact {
				if want.Cmp(bi(out[i])) != 0 {
					detail = fmt.Sprintf("i=%d got=%d want=%s", i, out[i], want)
				}
				continue
			}
			w := new(big.Int).Mod(want, Q)
			g := new(big.Int).Mod(bi(out[i]), Q)
			if w.Cmp(g) != 0 {
				detail = fmt.Sprintf("not-congruent i=%d got=%d want=%s", i, out[i], w)
			} else if rk > 0 && out[i] > rk*q-ro {
				detail = fmt.Sprintf("out-of-documented-range i=%d got=%d max=%d*q-%d", i, out[i], rk, ro)
			}
		}
		key := "C01/SubRing." + vr.name + "/not-congruent"
		if len(detail) > 3 && detail[:3] == "out" {
			key = "C01/SubRing." + vr.name + "/exceeds-documented-range"
		}
		c.Probe("vec_ref", fmt.Sprintf("%s %d %d %d %s %s %s", vr.name, q, s0, s1, Vec(p1), Vec(p2), Vec(p3)), key, detail)
	}
}
