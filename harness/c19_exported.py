#!/usr/bin/env python3
"""Regenerates the `exportedSets` section of lean/Lattigo/Model/Params.lean from a harness dump:
   ./h gen C19 -seed 1 -tier quick -out o && python3 c19_exported.py o/ops.txt Params.lean"""
import sys, re
ops, lean = sys.argv[1], sys.argv[2]
# sets whose modulus is above the table (findings); `:ephemeral` rows are informational only
ABOVE = {"bootstrapping.N16QP1793H32768H32:bootstrapping",
         "bootstrapping.N15QP768H192H32:bootstrapping-with-LogN15",
         "bootstrapping.N15QP880H16384H32:bootstrapping-with-LogN15"}
rows = []
for line in open(ops):
    if not line.startswith("C19 exported "):
        continue
    kv = dict(t.split("=", 1) for t in line.split()[2:])
    vec = lambda s: "[]" if s == "-" else "[" + ", ".join(s.split(",")) + "]"
    b = lambda x: "true" if x else "false"
    rows.append('  { name := "%s", logN := %s, xsH := %s, checked := %s, above := %s,\n    q := %s,\n    p := %s }' % (kv["name"], kv["logN"], kv["xsH"], b(not kv["name"].endswith(":ephemeral")), b(kv["name"] in ABOVE), vec(kv["Q"]), vec(kv["P"])))
body = "def exportedSets : List ExportedSet := [\n" + ",\n".join(rows) + "\n]\n"
s = open(lean).read()
a, b = "-- BEGIN GENERATED exportedSets\n", "-- END GENERATED exportedSets\n"
s = s[: s.index(a) + len(a)] + body + s[s.index(b):]
open(lean, "w").write(s)
print(len(rows), "sets")
