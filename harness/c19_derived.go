package main

// C19 — every derived accessor of core/rlwe/params.go (and ckks LogQLvl) against an independent
// big-integer definition, at every level, on chains with UNEQUAL prime sizes in which the prime
// of the working level is not the largest one.
//
// Tie line  `accessors logN= rt= Q= P= ws=`  (the Lean model recomputes every field) and one probe
// per accessor (`derived_accessor name=…`, key C19-derived:<accessor>).

import (
	"fmt"
	"math"
	"math/big"
	"math/bits"
	"strings"

	"github.com/tuneinsight/lattigo/v6/ring"
	"github.com/tuneinsight/lattigo/v6/schemes/ckks"
)

func c19MaxU(v []uint64) (m uint64) {
	for _, x := range v {
		if x > m {
			m = x
		}
	}
	return
}

// c19Margin is the definition floor(2^64 / max(v)) (big integers), -1 for an empty list.
func c19Margin(v []uint64) int {
	if len(v) == 0 {
		return -1
	}
	two64 := new(big.Int).Lsh(big.NewInt(1), 64)
	return int(new(big.Int).Quo(two64, new(big.Int).SetUint64(c19MaxU(v))).Int64())
}

// c19RoundLog2 is round(log2 q) in exact arithmetic: the S with 2^(2S-1) < q^2 < 2^(2S+1).
func c19RoundLog2(q uint64) int {
	b := bits.Len64(q) // 2^(b-1) <= q < 2^b
	qq := new(big.Int).Mul(new(big.Int).SetUint64(q), new(big.Int).SetUint64(q))
	if qq.Cmp(new(big.Int).Lsh(big.NewInt(1), uint(2*b-1))) > 0 {
		return b
	}
	return b - 1
}

// c19Log2Big is log2 of a positive big integer to ~1e-15.
func c19Log2Big(x *big.Int) float64 {
	n := x.BitLen()
	if n <= 64 {
		return math.Log2(float64(x.Uint64()))
	}
	top := new(big.Int).Rsh(x, uint(n-64)).Uint64()
	return math.Log2(float64(top)) + float64(n-64)
}

func c19JoinI(rows [][]int) string {
	if len(rows) == 0 {
		return "-"
	}
	parts := make([]string, len(rows))
	for i := range rows {
		parts[i] = IVec(rows[i])
	}
	return strings.Join(parts, ";")
}

func c19Accessors(c *Ctx, logN, rt int, logQ, logP []int, lds int) {
	p, err := ckks.NewParametersFromLiteral(ckks.ParametersLiteral{LogN: logN, LogQ: logQ, LogP: logP, RingType: ring.Type(rt), LogDefaultScale: lds})
	if err != nil {
		panic(err)
	}
	Q, P := p.Q(), p.P()
	ws := []int{0, 1, 7, 16, 20, 30, 45, 61}
	fails := map[string]string{}
	bad := func(name, detail string) {
		if _, ok := fails[name]; !ok {
			fails[name] = detail
		}
	}
	names := []string{"QiOverflowMargin", "PiOverflowMargin", "BaseRNSDecompositionVectorSize", "BaseTwoDecompositionVectorSize",
		"MaxBit", "LogQi", "LogPi", "LogQLvl", "Counts", "MaxLevels", "Q/P/QP", "QBigInt/PBigInt/QPBigInt", "LogQ/LogP/LogQP", "N/NthRoot"}

	out := Try(func() string {
		// overflow margins at every level
		qim := make([]int, len(Q))
		for l := range Q {
			qim[l] = p.QiOverflowMargin(l)
			if want := c19Margin(Q[:l+1]); qim[l] != want {
				bad("QiOverflowMargin", fmt.Sprintf("QiOverflowMargin(%d)=%d, floor(2^64/max(Q[:%d]))=%d, Q=%v", l, qim[l], l+1, want, Q))
			}
			if hi, _ := bits.Mul64(uint64(qim[l]), c19MaxU(Q[:l+1])); hi != 0 {
				bad("QiOverflowMargin", fmt.Sprintf("QiOverflowMargin(%d)=%d times max(Q[:%d]) exceeds 2^64", l, qim[l], l+1))
			}
		}
		pim := make([]int, len(P)+1)
		for l := -1; l < len(P); l++ {
			pim[l+1] = p.PiOverflowMargin(l)
			want := -1
			if l >= 0 {
				want = c19Margin(P[:l+1])
			}
			if pim[l+1] != want {
				bad("PiOverflowMargin", fmt.Sprintf("PiOverflowMargin(%d)=%d, definition %d, P=%v", l, pim[l+1], want, P))
			}
		}
		// RNS decomposition sizes for every (levelQ, levelP)
		var brns, maxbit [][]int
		for lq := range Q {
			var r1, r2 []int
			for lp := -1; lp < len(P); lp++ {
				got := p.BaseRNSDecompositionVectorSize(lq, lp)
				want := lq + 1
				if lp >= 0 {
					want = (lq + 1 + lp) / (lp + 1) // ceil((lq+1)/(lp+1))
				}
				if got != want {
					bad("BaseRNSDecompositionVectorSize", fmt.Sprintf("(%d,%d)=%d want ceil(%d/%d)=%d", lq, lp, got, lq+1, lp+1, want))
				}
				r1 = append(r1, got)
				mb := p.MaxBit(lq, lp)
				wantmb := bits.Len64(c19MaxU(Q[:lq+1]))
				if lp >= 0 {
					if x := bits.Len64(c19MaxU(P[:lp+1])); x > wantmb {
						wantmb = x
					}
				}
				if mb != wantmb {
					bad("MaxBit", fmt.Sprintf("MaxBit(%d,%d)=%d want %d", lq, lp, mb, wantmb))
				}
				r2 = append(r2, mb)
			}
			brns = append(brns, r1)
			maxbit = append(maxbit, r2)
		}
		// base-2 digit counts
		var b2 [][]int
		for _, w := range ws {
			for _, lp := range []int{-1, 0, 1} {
				got := p.BaseTwoDecompositionVectorSize(len(Q)-1, lp, w)
				for i, q := range Q {
					want := 1
					if w != 0 && lp <= 0 {
						want = (bits.Len64(q) + w - 1) / w
					}
					if i >= len(got) || got[i] != want {
						bad("BaseTwoDecompositionVectorSize", fmt.Sprintf("(levelP=%d, w=%d)=%v, digit count of q=%d must be %d", lp, w, got, q, want))
					}
				}
				b2 = append(b2, got)
			}
		}
		logqi, logpi := p.LogQi(), p.LogPi()
		for i, q := range Q {
			if logqi[i] != c19RoundLog2(q) {
				bad("LogQi", fmt.Sprintf("LogQi[%d]=%d for q=%d, round(log2 q)=%d", i, logqi[i], q, c19RoundLog2(q)))
			}
		}
		for i, q := range P {
			if logpi[i] != c19RoundLog2(q) {
				bad("LogPi", fmt.Sprintf("LogPi[%d]=%d for p=%d, round(log2 p)=%d", i, logpi[i], q, c19RoundLog2(q)))
			}
		}
		qlvl := make([]int, len(Q))
		prod := big.NewInt(1)
		for l, q := range Q {
			prod.Mul(prod, new(big.Int).SetUint64(q))
			qlvl[l] = p.LogQLvl(l)
			if qlvl[l] != prod.BitLen() || p.QLvl(l).Cmp(prod) != 0 {
				bad("LogQLvl", fmt.Sprintf("LogQLvl(%d)=%d want %d", l, qlvl[l], prod.BitLen()))
			}
		}
		pprod := big.NewInt(1)
		for _, q := range P {
			pprod.Mul(pprod, new(big.Int).SetUint64(q))
		}
		if p.QCount() != len(Q) || p.PCount() != len(P) || p.QPCount() != len(Q)+len(P) {
			bad("Counts", fmt.Sprintf("QCount=%d PCount=%d QPCount=%d for %d+%d moduli", p.QCount(), p.PCount(), p.QPCount(), len(Q), len(P)))
		}
		if p.MaxLevel() != len(Q)-1 || p.MaxLevelQ() != len(Q)-1 || p.MaxLevelP() != len(P)-1 {
			bad("MaxLevels", fmt.Sprintf("MaxLevel=%d MaxLevelQ=%d MaxLevelP=%d", p.MaxLevel(), p.MaxLevelQ(), p.MaxLevelP()))
		}
		if Vec(p.QP()) != Vec(append(append([]uint64{}, Q...), P...)) || Vec(p.Parameters.ParametersLiteral().Q) != Vec(Q) || Vec(p.RingQ().ModuliChain()) != Vec(Q) {
			bad("Q/P/QP", "QP() is not Q followed by P, or the literal/ring disagree with Q()")
		}
		if p.QBigInt().Cmp(prod) != 0 || p.PBigInt().Cmp(pprod) != 0 || p.QPBigInt().Cmp(new(big.Int).Mul(prod, pprod)) != 0 {
			bad("QBigInt/PBigInt/QPBigInt", "big-integer products disagree")
		}
		wantLogP := 0.0
		if len(P) > 0 {
			wantLogP = c19Log2Big(pprod)
		}
		// Ring.LogModuli (behind LogQ / LogP / LogQP): finite, the sum of log2 over the ring's own ModuliChain()
		sum, sumP := 0.0, 0.0
		for _, q := range Q {
			sum += math.Log2(float64(q))
		}
		for _, q := range P {
			sumP += math.Log2(float64(q))
		}
		rings := []*ring.Ring{p.RingQ(), p.RingQ().AtLevel(0), p.RingQ().AtLevel(len(Q) / 2)}
		if len(P) > 0 {
			rings = append(rings, p.RingP(), p.RingP().AtLevel(0))
		}
		for ri, r := range rings {
			want := 0.0
			for _, q := range r.ModuliChain() {
				want += math.Log2(float64(q))
			}
			if got := r.LogModuli(); math.IsInf(got, 0) || math.IsNaN(got) || math.Abs(got-want) > 1e-9 {
				bad("LogQ/LogP/LogQP", fmt.Sprintf("ring %d: LogModuli()=%v, the sum of log2 over its ModuliChain() (%d moduli) is %.12f", ri, got, len(r.ModuliChain()), want))
			}
		}
		for _, v := range []float64{p.LogQ(), p.LogP(), p.LogQP()} {
			if math.IsInf(v, 0) || math.IsNaN(v) {
				bad("LogQ/LogP/LogQP", fmt.Sprintf("LogQ=%v LogP=%v LogQP=%v for %d+%d moduli (sums of log2: %.6f, %.6f)", p.LogQ(), p.LogP(), p.LogQP(), len(Q), len(P), sum, sumP))
			}
		}
		if math.Abs(p.LogQ()-sum) > 1e-9 || math.Abs(p.LogP()-sumP) > 1e-9 || math.Abs(p.LogQP()-sum-sumP) > 1e-9 {
			bad("LogQ/LogP/LogQP", fmt.Sprintf("LogQ=%.12f LogP=%.12f LogQP=%.12f, the sums of log2 of the moduli are %.12f %.12f", p.LogQ(), p.LogP(), p.LogQP(), sum, sumP))
		}
		if math.Abs(p.LogQ()-c19Log2Big(prod)) > 1e-9 || math.Abs(p.LogP()-wantLogP) > 1e-9 || math.Abs(p.LogQP()-c19Log2Big(prod)-wantLogP) > 1e-9 {
			bad("LogQ/LogP/LogQP", fmt.Sprintf("LogQ=%.12f LogP=%.12f LogQP=%.12f, log2 of the products %.12f %.12f", p.LogQ(), p.LogP(), p.LogQP(), c19Log2Big(prod), wantLogP))
		}
		if p.N() != 1<<uint(logN) || p.LogN() != logN || p.NthRoot() != (2+2*rt)<<uint(logN) || p.LogNthRoot() != logN+1+rt || int(p.RingType()) != rt {
			bad("N/NthRoot", fmt.Sprintf("N=%d LogN=%d NthRoot=%d LogNthRoot=%d RingType=%d", p.N(), p.LogN(), p.NthRoot(), p.LogNthRoot(), p.RingType()))
		}
		return fmt.Sprintf("qim=%s pim=%s brns=%s maxbit=%s b2=%s logqi=%s logpi=%s qlvl=%s counts=%d,%d,%d maxlevels=%d,%d,%d",
			IVec(qim), IVec(pim), c19JoinI(brns), c19JoinI(maxbit), c19JoinI(b2), IVec(logqi), IVec(logpi), IVec(qlvl),
			p.QCount(), p.PCount(), p.QPCount(), p.MaxLevel(), p.MaxLevelQ(), p.MaxLevelP())
	})
	args := fmt.Sprintf("logN=%d rt=%d Q=%s P=%s ws=%s", logN, rt, Vec(Q), Vec(P), IVec(ws))
	c.Emit("accessors "+args, out)
	c.Count("accessors")
	for _, n := range names {
		d := fails[n]
		if out == "panic" {
			d = "panic"
		}
		c.Probe("derived_accessor", "name="+n+" "+args, "C19-derived:"+n, d)
	}
}

func c19Rep(b, n int) []int {
	out := make([]int, n)
	for i := range out {
		out[i] = b
	}
	return out
}

func c19DerivedAccessors(c *Ctx) {
	// chains in which the prime of the working level is not the largest one
	for _, x := range []struct {
		logQ, logP []int
	}{
		{[]int{60, 45, 45}, []int{61}},
		{[]int{60, 45, 45}, nil},
		{[]int{30, 55, 40, 58, 33}, []int{36, 61, 50}},
		{[]int{55, 40, 40, 40}, []int{45, 56}},
		{[]int{58, 20, 59, 21, 60}, []int{61, 25, 61}},
		{[]int{25}, []int{26}},
		{[]int{45, 60}, []int{60, 30}},
		// products beyond 2^1024 and 2^2048 (float64 cannot hold them): every N=2^16 bootstrapping set is of this size
		{c19Rep(55, 18), []int{56}},                           // 990 bits: just below
		{c19Rep(55, 19), nil},                                 // 1045 bits
		{c19Rep(55, 20), c19Rep(56, 3)},                       // 1100 + 168
		{c19Rep(45, 12), c19Rep(61, 19)},                      // P beyond 2^1024, Q below
		{c19Rep(60, 40), c19Rep(61, 4)},                       // 2400 + 244
		{append([]int{60}, c19Rep(40, 30)...), c19Rep(61, 5)}, // 1260 + 305: the shape of a default bootstrapping chain
	} {
		for rt := 0; rt <= 1; rt++ {
			c19Accessors(c, 5+c.rng.Intn(4), rt, x.logQ, x.logP, 40)
		}
	}
	for i := 0; i < c.Scale(20, 300); i++ {
		nq, np := 1+c.rng.Intn(6), c.rng.Intn(4)
		lq, lp := make([]int, nq), make([]int, np)
		for j := range lq {
			lq[j] = 20 + c.rng.Intn(41)
		}
		for j := range lp {
			lp[j] = 20 + c.rng.Intn(42)
		}
		c19Accessors(c, 4+c.rng.Intn(6), c.rng.Intn(2), lq, lp, []int{30, 45, 90}[c.rng.Intn(3)])
	}
}
