package main

// C04 — derived forms of evaluation keys. For every key type (EvaluationKey, RelinearizationKey, GaloisKey,
// MemEvaluationKeySet, compressed keys before/after Expand) and every form a user can derive from it (CopyNew,
// copy of a copy, MarshalBinary/UnmarshalBinary, WriteTo/ReadFrom, keys fetched back from a MemEvaluationKeySet,
// a (de)serialised key set, evaluators obtained by ShallowCopy / WithKey):
//   (a) metadata: BaseTwoDecomposition, LevelQ/LevelP, degree, digit counts, GaloisElement, NthRoot, Seed, Equal()
//       and the canonical rows agree with the original          -> finding key C04/<Type>.<Form>/metadata
//   (b) functional: key switch / relinearisation / automorphism with the derived key decrypts within the noise
//       bound, and the output is tied to the model run on the ORIGINAL key record (copy = identity)
//                                                               -> finding key C04/<Type>.<Form>/functional
//   tie `keymeta`: the metadata record of the derived key must be the record of the original.

import (
	"bytes"
	"fmt"

	"github.com/tuneinsight/lattigo/v6/core/rlwe"
	"github.com/tuneinsight/lattigo/v6/utils/buffer"
)

type c04KeyRec struct {
	w, lq, lp, deg, nI int
	nJ                 []int
	galEl, nthRoot     uint64
	seed               []byte
}

func c04RecOf(evk *rlwe.EvaluationKey, galEl, nthRoot uint64) c04KeyRec {
	r := c04KeyRec{w: evk.BaseTwoDecomposition, lq: evk.LevelQ(), lp: evk.LevelP(), deg: evk.Degree(),
		nI: evk.BaseRNSDecompositionVectorSize(), nJ: evk.GadgetCiphertext.BaseTwoDecompositionVectorSize(), galEl: galEl, nthRoot: nthRoot}
	if evk.Seed != nil {
		r.seed = append([]byte{}, evk.Seed[:]...)
	}
	return r
}

func (r c04KeyRec) String() string {
	return fmt.Sprintf("%d %d %d %d %d %s %d %d %s", r.w, r.lq, r.lp, r.deg, r.nI, IVec(r.nJ), r.galEl, r.nthRoot, Hex(r.seed))
}

// c04CheckDerived emits the keymeta tie and the metadata probe for one derived key.
func c04CheckDerived(c *Ctx, ps *c04PS, typ, form, args string, orig, der *rlwe.EvaluationKey, og, on, dg, dn uint64) bool {
	key := "C04/" + typ + "." + form + "/metadata"
	detail := ""
	var recD c04KeyRec
	res := Try(func() string { recD = c04RecOf(der, dg, dn); return recD.String() })
	recO := c04RecOf(orig, og, on)
	c.Emit(fmt.Sprintf("keymeta %s %s %s", typ, form, recO.String()), res)
	c.Count("keymeta:" + typ + "." + form)
	switch {
	case res == "panic":
		detail = "derived key is malformed (panic reading its metadata)"
	case recD.w != recO.w:
		detail = fmt.Sprintf("BaseTwoDecomposition %d, original %d", recD.w, recO.w)
	case recD.String() != recO.String():
		detail = fmt.Sprintf("record [%s], original [%s]", recD.String(), recO.String())
	case !orig.GadgetCiphertext.Equal(&der.GadgetCiphertext):
		detail = "GadgetCiphertext.Equal(original, derived) = false"
	case c04Polys(ps.evkPolys(orig)) != c04Polys(ps.evkPolys(der)):
		detail = "canonical rows differ"
	}
	c.Probe("key_metadata_preserved", typ+"."+form+" "+args, key, detail)
	return res != "panic"
}

// c04RoundTrip serialises and deserialises through MarshalBinary (mode 0) or WriteTo/ReadFrom (mode 1).
func c04RoundTripEvk(evk *rlwe.EvaluationKey, mode int) (*rlwe.EvaluationKey, error) {
	out := new(rlwe.EvaluationKey)
	if mode == 0 {
		b, err := evk.MarshalBinary()
		if err != nil {
			return nil, err
		}
		return out, out.UnmarshalBinary(b)
	}
	var bb bytes.Buffer
	if _, err := evk.WriteTo(&bb); err != nil {
		return nil, err
	}
	_, err := out.ReadFrom(buffer.NewBuffer(bb.Bytes()))
	return out, err
}

func c04RoundTripGk(gk *rlwe.GaloisKey, mode int) (*rlwe.GaloisKey, error) {
	out := new(rlwe.GaloisKey)
	if mode == 0 {
		b, err := gk.MarshalBinary()
		if err != nil {
			return nil, err
		}
		return out, out.UnmarshalBinary(b)
	}
	var bb bytes.Buffer
	if _, err := gk.WriteTo(&bb); err != nil {
		return nil, err
	}
	_, err := out.ReadFrom(buffer.NewBuffer(bb.Bytes()))
	return out, err
}

func c04DerivedKeys(c *Ctx) {
	ws := []int{0, 2, 7, 16}
	rounds := c.Scale(4, 24)
	for r := 0; r < rounds; r++ {
		nQ := 2 + c.rng.Intn(2)
		nP := r % 3 // 0 (no P), 1, 2
		ps := c04RandomPS(c, 4, nQ, nP)
		cfg := c04KeyCfg{lq: nQ - 1, lp: nP - 1, w: ws[r%len(ws)]}
		if r >= len(ws) && c.rng.Intn(3) == 0 {
			cfg.w = 1 + c.rng.Intn(30)
		}
		if c.rng.Intn(3) == 0 {
			cfg.lq = c.rng.Intn(nQ)
		}
		if nP > 0 && c.rng.Intn(3) == 0 {
			cfg.lp = c.rng.Intn(nP+1) - 1
		}
		cfg.compressed = r%4 == 3 || c.rng.Intn(4) == 0
		c.Count(fmt.Sprintf("derived:Q%d:P%d:lq%d:lp%d:w%d:comp%s", nQ, nP, cfg.lq, cfg.lp, cfg.w, c04B2s(cfg.compressed)))
		c04DerivedScenario(c, ps, cfg)
	}
}

func c04DerivedScenario(c *Ctx, ps *c04PS, cfg c04KeyCfg) {
	N := ps.N()
	kgen := rlwe.NewKeyGenerator(ps.params)
	sk := kgen.GenSecretKeyNew()
	sk2 := kgen.GenSecretKeyNew()
	args := fmt.Sprintf("%s %d %d %d %s", ps.hdr(), cfg.lq, cfg.lp, cfg.w, c04B2s(cfg.compressed))
	g := ps.params.GaloisElement(1 + c.rng.Intn(N/2-1))
	nth := ps.params.RingQ().NthRoot()

	evk := kgen.GenEvaluationKeyNew(sk, sk2, cfg.evkParams())
	rlk := kgen.GenRelinearizationKeyNew(sk, cfg.evkParams())
	gk := kgen.GenGaloisKeyNew(g, sk, cfg.evkParams())

	// compressed keys: derived forms BEFORE expansion (seed must survive), then expand everything
	if cfg.compressed {
		type pre struct {
			form string
			k    *rlwe.EvaluationKey
		}
		var pres []pre
		pres = append(pres, pre{"CopyNew(compressed)", evk.CopyNew()})
		if k, err := c04RoundTripEvk(evk, 0); err == nil {
			pres = append(pres, pre{"MarshalBinary(compressed)", k})
		} else {
			c.Probe("key_metadata_preserved", "EvaluationKey.MarshalBinary(compressed) "+args, "C04/EvaluationKey.MarshalBinary(compressed)/metadata", "round trip error")
		}
		for _, p := range pres {
			c04CheckDerived(c, ps, "EvaluationKey", p.form, args, evk, p.k, 0, 0, 0, 0)
		}
		for _, k := range []*rlwe.EvaluationKey{evk, &rlk.EvaluationKey, &gk.EvaluationKey} {
			if err := k.Expand(ps.params, nil); err != nil {
				c.Probe("expand_completes", args, "C04-expand-err", "Expand error")
				return
			}
		}
		// a copy made before expansion, expanded afterwards, must be the expanded original
		for _, p := range pres {
			k := p.k
			if r := Try(func() string {
				if err := k.Expand(ps.params, nil); err != nil {
					return "err"
				}
				return "ok"
			}); r != "ok" {
				c.Probe("key_metadata_preserved", "EvaluationKey."+p.form+"+Expand "+args, "C04/EvaluationKey."+p.form+"+Expand/metadata", "Expand of the derived key: "+r)
				continue
			}
			if c04CheckDerived(c, ps, "EvaluationKey", p.form+"+Expand", args, evk, p.k, 0, 0, 0, 0) {
				c04UseEvk(c, ps, cfg, "EvaluationKey", p.form+"+Expand", args, p.k, sk, sk2)
			}
		}
	}

	// ---- EvaluationKey
	{
		derived := map[string]*rlwe.EvaluationKey{}
		order := []string{"CopyNew", "CopyNew.CopyNew", "MarshalBinary", "WriteTo", "CopyNew.MarshalBinary"}
		derived["CopyNew"] = evk.CopyNew()
		derived["CopyNew.CopyNew"] = evk.CopyNew().CopyNew()
		if k, err := c04RoundTripEvk(evk, 0); err == nil {
			derived["MarshalBinary"] = k
		}
		if k, err := c04RoundTripEvk(evk, 1); err == nil {
			derived["WriteTo"] = k
		}
		if k, err := c04RoundTripEvk(evk.CopyNew(), 0); err == nil {
			derived["CopyNew.MarshalBinary"] = k
		}
		for _, form := range order {
			k, ok := derived[form]
			if !ok {
				c.Probe("key_metadata_preserved", "EvaluationKey."+form+" "+args, "C04/EvaluationKey."+form+"/metadata", "serialisation round trip failed")
				continue
			}
			if c04CheckDerived(c, ps, "EvaluationKey", form, args, evk, k, 0, 0, 0, 0) {
				c04UseEvk(c, ps, cfg, "EvaluationKey", form, args, k, sk, sk2)
			}
		}
	}

	// ---- RelinearizationKey / GaloisKey / MemEvaluationKeySet
	type setForm struct {
		form string
		rlk  *rlwe.RelinearizationKey
		gk   *rlwe.GaloisKey
		eval *rlwe.Evaluator // nil: build NewEvaluator(params, NewMemEvaluationKeySet(rlk, gk))
	}
	var forms []setForm
	forms = append(forms, setForm{form: "CopyNew", rlk: rlk.CopyNew(), gk: gk.CopyNew()})
	forms = append(forms, setForm{form: "CopyNew.CopyNew", rlk: rlk.CopyNew().CopyNew(), gk: gk.CopyNew().CopyNew()})
	for mode, name := range []string{"MarshalBinary", "WriteTo"} {
		r2 := new(rlwe.RelinearizationKey)
		k1, err1 := c04RoundTripEvk(&rlk.EvaluationKey, mode)
		g2, err2 := c04RoundTripGk(gk, mode)
		if err1 != nil || err2 != nil {
			c.Probe("key_metadata_preserved", "RelinearizationKey/GaloisKey."+name+" "+args, "C04/GaloisKey."+name+"/metadata", "serialisation round trip failed")
			continue
		}
		r2.EvaluationKey = *k1
		forms = append(forms, setForm{form: name, rlk: r2, gk: g2})
	}
	set := rlwe.NewMemEvaluationKeySet(rlk, gk)
	// fetched back from the set
	{
		fr, err1 := set.GetRelinearizationKey()
		fg, err2 := set.GetGaloisKey(g)
		if err1 != nil || err2 != nil {
			c.Probe("key_metadata_preserved", "MemEvaluationKeySet.Get "+args, "C04/MemEvaluationKeySet.Get/metadata", "key not returned")
		} else {
			forms = append(forms, setForm{form: "MemEvaluationKeySet.Get", rlk: fr, gk: fg})
		}
	}
	// (de)serialised set, shallow copy of the set
	{
		b, err := set.MarshalBinary()
		s2 := new(rlwe.MemEvaluationKeySet)
		if err == nil {
			err = s2.UnmarshalBinary(b)
		}
		if err != nil {
			c.Probe("key_metadata_preserved", "MemEvaluationKeySet.MarshalBinary "+args, "C04/MemEvaluationKeySet.MarshalBinary/metadata", "serialisation round trip failed")
		} else {
			fr, err1 := s2.GetRelinearizationKey()
			fg, err2 := s2.GetGaloisKey(g)
			if err1 != nil || err2 != nil {
				c.Probe("key_metadata_preserved", "MemEvaluationKeySet.MarshalBinary "+args, "C04/MemEvaluationKeySet.MarshalBinary/metadata", "key missing after round trip")
			} else {
				forms = append(forms, setForm{form: "MemEvaluationKeySet.MarshalBinary", rlk: fr, gk: fg})
			}
		}
		sc := set.ShallowCopy()
		fr, err1 := sc.GetRelinearizationKey()
		fg, err2 := sc.GetGaloisKey(g)
		if err1 == nil && err2 == nil {
			forms = append(forms, setForm{form: "MemEvaluationKeySet.ShallowCopy", rlk: fr, gk: fg})
		}
	}
	// evaluators derived from an evaluator holding the original keys
	base := rlwe.NewEvaluator(ps.params, set)
	forms = append(forms, setForm{form: "Evaluator.ShallowCopy", rlk: rlk, gk: gk, eval: base.ShallowCopy()})
	forms = append(forms, setForm{form: "Evaluator.WithKey(CopyNew)", rlk: rlk.CopyNew(), gk: gk.CopyNew()})
	forms[len(forms)-1].eval = base.WithKey(rlwe.NewMemEvaluationKeySet(forms[len(forms)-1].rlk, forms[len(forms)-1].gk))

	for _, f := range forms {
		ok1 := c04CheckDerived(c, ps, "RelinearizationKey", f.form, args, &rlk.EvaluationKey, &f.rlk.EvaluationKey, 0, 0, 0, 0)
		ok2 := c04CheckDerived(c, ps, "GaloisKey", f.form, args, &gk.EvaluationKey, &f.gk.EvaluationKey, gk.GaloisElement, gk.NthRoot, f.gk.GaloisElement, f.gk.NthRoot)
		if gk.NthRoot != nth {
			c.Probe("key_metadata_preserved", "GaloisKey.NthRoot "+args, "C04/GaloisKey.Gen/metadata", "NthRoot of a generated key differs from the ring's")
		}
		if !ok1 || !ok2 {
			continue
		}
		ev := f.eval
		if ev == nil {
			ev = rlwe.NewEvaluator(ps.params, rlwe.NewMemEvaluationKeySet(f.rlk, f.gk))
		}
		c04UseSet(c, ps, cfg, f.form, args, ev, rlk, gk, sk, g)
	}
}

// c04UseEvk: ApplyEvaluationKey with a derived key; the tie line carries the ORIGINAL configuration (copy = identity).
func c04UseEvk(c *Ctx, ps *c04PS, cfg c04KeyCfg, typ, form, args string, k *rlwe.EvaluationKey, sk, sk2 *rlwe.SecretKey) {
	lvl := cfg.lq
	if c.rng.Intn(3) == 0 {
		lvl = c.rng.Intn(cfg.lq + 1)
	}
	isNTT := c.rng.Intn(2) == 0
	m := c04Msg(c, ps, lvl)
	e := c04SmallVec(c, ps.N(), 3)
	ct := ps.mkCt(sk, m, e, [][][]uint64{ps.randRows(c, lvl)}, isNTT)
	in := ps.ctPolys(ct)
	out := rlwe.NewCiphertext(ps.params, 1, lvl)
	eval := rlwe.NewEvaluator(ps.params, nil)
	res := Try(func() string {
		if err := eval.ApplyEvaluationKey(ct, k, out); err != nil {
			return "err"
		}
		return c04Polys(ps.ctPolys(out))
	})
	fkey := "C04/" + typ + "." + form + "/functional"
	if res == "err" || res == "panic" {
		c.Probe("derived_key_decrypts", typ+"."+form+" apply "+args, fkey, "ApplyEvaluationKey "+res)
		return
	}
	c.Emit(ps.ksLine("apply", cfg, isNTT, 0, 0, k, in), res)
	c.Count("derived:apply")
	shape := ps.c04ShapeOf(cfg)
	c04ProbeNoise(c, ps, "derived_key_decrypts", fmt.Sprintf("%s.%s apply %s lvl=%d ntt=%s", typ, form, args, lvl, c04B2s(isNTT)), out, sk2, m,
		ps.ksNoiseBound(lvl, cfg.lp, cfg.w, shape), fkey)
}

// c04ShapeOf: the row lengths a key of this configuration must have (from the parameters, not from the key).
func (ps *c04PS) c04ShapeOf(cfg c04KeyCfg) []int {
	b := ps.params.BaseTwoDecompositionVectorSize(cfg.lq, cfg.lp, cfg.w)
	n := ps.params.BaseRNSDecompositionVectorSize(cfg.lq, cfg.lp)
	if n < len(b) {
		b = b[:n]
	}
	return b
}

// c04UseSet: Relinearize and Automorphism through an evaluator holding derived keys; tie lines carry the ORIGINAL keys.
func c04UseSet(c *Ctx, ps *c04PS, cfg c04KeyCfg, form, args string, eval *rlwe.Evaluator, rlk *rlwe.RelinearizationKey, gk *rlwe.GaloisKey, sk *rlwe.SecretKey, g uint64) {
	lvl := cfg.lq
	if c.rng.Intn(3) == 0 {
		lvl = c.rng.Intn(cfg.lq + 1)
	}
	isNTT := c.rng.Intn(2) == 0
	N := ps.N()
	m := c04Msg(c, ps, lvl)
	e := c04SmallVec(c, N, 3)
	bound := ps.ksNoiseBound(lvl, cfg.lp, cfg.w, ps.c04ShapeOf(cfg))
	pargs := fmt.Sprintf("%s lvl=%d ntt=%s", args, lvl, c04B2s(isNTT))
	{
		ct := ps.mkCt(sk, m, e, [][][]uint64{ps.randRows(c, lvl), ps.randRows(c, lvl)}, isNTT)
		in := ps.ctPolys(ct)
		out := rlwe.NewCiphertext(ps.params, 1, lvl)
		res := Try(func() string {
			if err := eval.Relinearize(ct, out); err != nil {
				return "err"
			}
			return c04Polys(ps.ctPolys(out))
		})
		fkey := "C04/RelinearizationKey." + form + "/functional"
		if res == "err" || res == "panic" {
			c.Probe("derived_key_decrypts", "RelinearizationKey."+form+" relin "+pargs, fkey, "Relinearize "+res)
		} else {
			c.Emit(ps.ksLine("relin", cfg, isNTT, 0, 0, &rlk.EvaluationKey, in), res)
			c.Count("derived:relin")
			c04ProbeNoise(c, ps, "derived_key_decrypts", "RelinearizationKey."+form+" relin "+pargs, out, sk, m, bound, fkey)
		}
	}
	{
		ct := ps.mkCt(sk, m, e, [][][]uint64{ps.randRows(c, lvl)}, isNTT)
		in := ps.ctPolys(ct)
		out := rlwe.NewCiphertext(ps.params, 1, lvl)
		res := Try(func() string {
			if err := eval.Automorphism(ct, g, out); err != nil {
				return "err"
			}
			return c04Polys(ps.ctPolys(out))
		})
		fkey := "C04/GaloisKey." + form + "/functional"
		if res == "err" || res == "panic" {
			c.Probe("derived_key_decrypts", "GaloisKey."+form+" aut "+pargs, fkey, "Automorphism "+res)
		} else {
			c.Emit(ps.ksLine("aut", cfg, isNTT, g, 0, &gk.EvaluationKey, in), res)
			c.Count("derived:aut")
			c04ProbeNoise(c, ps, "derived_key_decrypts", fmt.Sprintf("GaloisKey.%s aut %s galEl=%d", form, pargs, g), out, sk, c04ApplyAutInts(m, g), bound, fkey)
		}
	}
}
