// Command harness drives the real lattigo code (built from /repo's working tree) for
// the correspondence check.  `harness gen <PROP>` writes, into -out:
//
//	ops.txt   one operation per line (the model driver's input)
//	impl.txt  the implementation's canonical output for that line
//	stats.json  distribution of what was generated (for the evidence file)
//
// Lines whose first token after the property id is `probe` are direct evaluations of a
// property predicate on the real code: the model side answers `holds` for all of them,
// the implementation side answers `holds` or `fails:<finding-key> <detail>`.
package main

import (
	"bufio"
	"encoding/json"
	"flag"
	"fmt"
	"os"
	"path/filepath"
	"runtime/debug"
	"sort"
	"strconv"
	"strings"
)

// Ctx is handed to every generator.
type Ctx struct {
	Prop  string
	Tier  string
	Seed  uint64
	rng   *SplitMix
	ops   *bufio.Writer
	impl  *bufio.Writer
	N     int
	Stats map[string]int
	// distinct non-trivial op lines are counted by the check script from ops.txt
}

func (c *Ctx) Thorough() bool { return c.Tier == "thorough" }

// Scale picks quick or thorough size.
func (c *Ctx) Scale(quick, thorough int) int {
	if c.Thorough() {
		return thorough
	}
	return quick
}

func (c *Ctx) Count(key string) { c.Stats[key]++ }

// Emit writes one protocol line: op tokens and the implementation's output.
func (c *Ctx) Emit(op string, out string) {
	if strings.ContainsAny(op, "\n\r") || strings.ContainsAny(out, "\n\r") {
		panic("newline in protocol line")
	}
	fmt.Fprintf(c.ops, "%s %s\n", c.Prop, op)
	fmt.Fprintf(c.impl, "%s\n", out)
	c.N++
}

// Try runs f and maps a panic to the canonical output "panic".
func Try(f func() string) (out string) {
	defer func() {
		if r := recover(); r != nil {
			out = "panic"
			if os.Getenv("VERIF_DEBUG") != "" {
				fmt.Fprintf(os.Stderr, "panic: %v\n", r)
			}
		}
	}()
	return f()
}

// Probe emits a property-predicate line. detail must be "" when the predicate holds.
func (c *Ctx) Probe(name string, args string, key string, detail string) {
	out := "holds"
	if detail != "" {
		out = "fails:" + key + " " + detail
	}
	c.Emit("probe "+name+" "+args, out)
	c.Count("probe:" + name)
}

type generator func(c *Ctx)

var generators = map[string]generator{}

func register(prop string, g generator) { generators[prop] = g }

// ---- formatting helpers ----

func U(x uint64) string { return strconv.FormatUint(x, 10) }
func I(x int) string    { return strconv.Itoa(x) }

func Vec(v []uint64) string {
	if len(v) == 0 {
		return "-"
	}
	var sb strings.Builder
	for i, x := range v {
		if i > 0 {
			sb.WriteByte(',')
		}
		sb.WriteString(strconv.FormatUint(x, 10))
	}
	return sb.String()
}

func IVec(v []int) string {
	if len(v) == 0 {
		return "-"
	}
	var sb strings.Builder
	for i, x := range v {
		if i > 0 {
			sb.WriteByte(',')
		}
		sb.WriteString(strconv.Itoa(x))
	}
	return sb.String()
}

func Mat(m [][]uint64) string {
	if len(m) == 0 {
		return "-"
	}
	parts := make([]string, len(m))
	for i := range m {
		parts[i] = Vec(m[i])
	}
	return strings.Join(parts, ";")
}

func Hex(b []byte) string {
	if len(b) == 0 {
		return "-"
	}
	const hexd = "0123456789abcdef"
	out := make([]byte, 2*len(b))
	for i, x := range b {
		out[2*i] = hexd[x>>4]
		out[2*i+1] = hexd[x&15]
	}
	return string(out)
}

func main() {
	if len(os.Args) < 3 {
		fmt.Fprintln(os.Stderr, "usage: harness gen <PROP> -seed N -tier quick|thorough -out DIR | harness list")
		os.Exit(2)
	}
	cmd, prop := os.Args[1], os.Args[2]
	fs := flag.NewFlagSet("harness", flag.ExitOnError)
	seed := fs.Uint64("seed", 1, "seed")
	tier := fs.String("tier", "quick", "tier")
	out := fs.String("out", "", "output dir")
	_ = fs.Parse(os.Args[3:])
	switch cmd {
	case "list":
		var ks []string
		for k := range generators {
			ks = append(ks, k)
		}
		sort.Strings(ks)
		fmt.Println(strings.Join(ks, " "))
		return
	case "gen":
		g, ok := generators[prop]
		if !ok {
			fmt.Fprintln(os.Stderr, "unknown property", prop)
			os.Exit(2)
		}
		if *out == "" {
			fmt.Fprintln(os.Stderr, "need -out")
			os.Exit(2)
		}
		must(os.MkdirAll(*out, 0o755))
		fo, err := os.Create(filepath.Join(*out, "ops.txt"))
		must(err)
		fi, err := os.Create(filepath.Join(*out, "impl.txt"))
		must(err)
		InstallDeterministicRand(*seed)
		c := &Ctx{Prop: prop, Tier: *tier, Seed: *seed, rng: NewSplitMix(*seed), ops: bufio.NewWriterSize(fo, 1<<20), impl: bufio.NewWriterSize(fi, 1<<20), Stats: map[string]int{}}
		func() {
			// a panic (in the library under test or in a generator that met an unexpected shape) must not lose the
			// lines already produced: flush them, report, and exit 3 so the check still classifies the partial run.
			defer func() {
				if r := recover(); r != nil {
					// A panic raised inside the library under test (innermost non-runtime frame in lattigo) on an
					// input this generator produces is reported as a failing probe: on the unchanged tree the
					// generator completes, so the library does not panic on these inputs. A panic raised in the
					// harness itself (an unexpected shape) stays a broken run.
					if fr := libraryPanicFrame(debug.Stack()); fr != "" {
						msg := strings.Map(func(r rune) rune {
							if r == '\n' || r == '\r' {
								return ' '
							}
							return r
						}, fmt.Sprintf("%v", r))
						c.Probe("no_library_panic", fmt.Sprintf("seed=%d tier=%s after_line=%d", c.Seed, c.Tier, c.N), c.Prop+"/library-panic", "library code panicked: "+msg+" at "+fr)
					}
					_ = c.ops.Flush()
					_ = c.impl.Flush()
					_ = fo.Close()
					_ = fi.Close()
					fmt.Fprintf(os.Stderr, "panic: %v\n\n%s", r, debug.Stack())
					os.Exit(3)
				}
			}()
			g(c)
		}()
		must(c.ops.Flush())
		must(c.impl.Flush())
		must(fo.Close())
		must(fi.Close())
		st := map[string]interface{}{"lines": c.N, "distribution": c.Stats, "seed": *seed, "tier": *tier}
		b, _ := json.MarshalIndent(st, "", " ")
		must(os.WriteFile(filepath.Join(*out, "stats.json"), b, 0o644))
	default:
		fmt.Fprintln(os.Stderr, "unknown command", cmd)
		os.Exit(2)
	}
}

func must(err error) {
	if err != nil {
		fmt.Fprintln(os.Stderr, "harness:", err)
		os.Exit(2)
	}
}

// probesOnly reports whether the run is a search for a failing input (tie lines may be skipped).
func probesOnly() bool { return os.Getenv("VERIF_PROBES_ONLY") != "" }

// repoPath is the repository under test (VERIF_REPO for self-tests on scratch copies).
func repoPath() string {
	if p := os.Getenv("VERIF_REPO"); p != "" {
		return p
	}
	return "/repo"
}

// libraryPanicFrame returns "func file:line" of the innermost frame below the panic when that frame belongs to
// the library under test, "" otherwise.
func libraryPanicFrame(stack []byte) string {
	lines := strings.Split(string(stack), "\n")
	seenPanic := false
	for i := 0; i+1 < len(lines); i++ {
		l := lines[i]
		if strings.HasPrefix(l, "panic(") {
			seenPanic = true
			i++
			continue
		}
		if !seenPanic || strings.HasPrefix(l, "\t") || l == "" {
			continue
		}
		if strings.HasPrefix(l, "runtime.") || strings.HasPrefix(l, "runtime/") {
			i++
			continue
		}
		if strings.HasPrefix(l, "github.com/tuneinsight/lattigo/") {
			fn := l
			if k := strings.Index(fn, "("); k > 0 {
				fn = fn[:k]
			}
			loc := strings.TrimSpace(lines[i+1])
			if k := strings.Index(loc, " +0x"); k > 0 {
				loc = loc[:k]
			}
			if k := strings.LastIndex(loc, "/"); k >= 0 {
				loc = loc[k+1:]
			}
			return fn + " " + loc
		}
		return ""
	}
	return ""
}
