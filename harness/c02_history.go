package main

// C02: single-call runners (tie + reference probes + panic capture + optional history_free probe) and
// call SEQUENCES on long-lived objects (one BasisExtender / Decomposer / Ring per chain, levels visited in
// decreasing, increasing and random order).

import (
	"fmt"
	"math/big"
	"strings"

	"github.com/tuneinsight/lattigo/v6/ring"
)

// c02Panics runs f and reports whether it panicked.
func c02Panics(f func()) (pan bool) {
	defer func() {
		if recover() != nil {
			pan = true
		}
	}()
	f()
	return
}

type c02Env struct {
	N            int
	ringQ, ringP *ring.Ring
	ch           c02Chain
	gQ, gP       []uint64
	Qs, Ps       string
	over         int  // extra (junk) rows of every polynomial handed to the code: allocated above the level it is used at
	ci           bool // conjugate-invariant rings (NthRoot = 4N): ops "divci", "moddownnttci"
}

func c02NewEnv(N int, ringQ, ringP *ring.Ring, ch c02Chain) *c02Env {
	e := &c02Env{N: N, ringQ: ringQ, ringP: ringP, ch: ch, gQ: c02PrimRoots(ringQ), Qs: Vec(ch.Q), Ps: Vec(ch.P)}
	if ringP != nil {
		e.gP = c02PrimRoots(ringP)
	}
	return e
}

// fresh rings (and nothing else shared with the long-lived objects)
func (e *c02Env) freshRings() (rq, rp *ring.Ring) {
	mk := ring.NewRing
	if e.ci {
		mk = ring.NewRingConjugateInvariant
	}
	rq, _ = mk(e.N, e.ch.Q)
	if e.ringP != nil {
		rp, _ = mk(e.N, e.ch.P)
	}
	return
}

// c02HistoryProbe: result on the long-lived object == result on a fresh object (panics compared too).
func c02HistoryProbe(c *Ctx, what, args string, out [][]uint64, pan bool, outF [][]uint64, panF bool) {
	d := ""
	switch {
	case pan != panF:
		d = fmt.Sprintf("long-lived object panicked=%v, fresh object panicked=%v", pan, panF)
	case !pan && !c02RowsEq(out, outF):
		d = "result on the long-lived object differs from the result on a fresh object"
		for i := range out {
			if i < len(outF) && !c02EqVec(out[i], outF[i]) {
				for j := range out[i] {
					if out[i][j] != outF[i][j] {
						d += fmt.Sprintf(" (row %d coeff %d: %d vs %d)", i, j, out[i][j], outF[i][j])
						break
					}
				}
				break
			}
		}
	}
	c.Probe("history_free", what+" "+args, "C02/"+what+"/history-dependent", d)
}

// ---- ModUpQtoP / ModUpPtoQ ------------------------------------------------------------------------

func c02DoModUp(be *ring.BasisExtender, dir string, levelQ, levelP int, pin ring.Poly, r *SplitMix, N, ndst int) (out [][]uint64, pan bool) {
	pout := c02JunkPoly(r, N, ndst-1)
	pan = c02Panics(func() {
		if dir == "qtop" {
			be.ModUpQtoP(levelQ, levelP, pin, pout)
		} else {
			be.ModUpPtoQ(levelP, levelQ, pin, pout)
		}
	})
	return c02RowsCopy(pout, ndst), pan
}

// c02OneModUp: one call on be; hist != "" adds the history_free probe against a fresh extender.
// Returns the input polynomial (for the raw ModUpExact tie of the sweep).
func c02OneModUp(c *Ctx, po bool, e *c02Env, be *ring.BasisExtender, dir string, levelQ, levelP int, X []*big.Int, hist string) (ring.Poly, [][]uint64) {
	mQ, mP := e.ch.Q[:levelQ+1], e.ch.P[:levelP+1]
	src, dst := mQ, mP
	if dir == "ptoq" {
		src, dst = mP, mQ
	}
	in := c02RowsOf(X, src)
	pin := c02PolyOver(c.rng, e.N, in, e.over)
	args := fmt.Sprintf("%s %s %s %d %d %s", dir, e.Qs, e.Ps, levelQ, levelP, Mat(in))
	out, pan := c02DoModUp(be, dir, levelQ, levelP, pin, c.rng, e.N, len(dst)+e.over)
	out = out[:len(dst)]
	c.Count("modup:" + dir)
	if pan {
		if !po {
			c.Emit("modup "+args, "panic")
		}
		c.Probe("no_panic", "modup "+args, "C02/ModUp/"+dir+"/panic", "panicked")
	} else {
		if !po {
			c.Emit("modup "+args, Mat(out))
		}
		c02ProbeModUp(c, dir, src, dst, X, in, c02RowsCopy(pin, len(src)), out, args)
	}
	if hist != "" {
		rq, rp := e.freshRings()
		outF, panF := c02DoModUp(ring.NewBasisExtender(rq, rp), dir, levelQ, levelP, c02PolyFromRows(e.N, in), c.rng, e.N, len(dst))
		c02HistoryProbe(c, "ModUp/"+dir, fmt.Sprintf("%s %s %d %d %s", e.Qs, e.Ps, levelQ, levelP, hist), out, pan, outF, panF)
	}
	return pin, in
}

// ---- ModDownQPtoQ / ModDownQPtoQNTT / ModDownQPtoP --------------------------------------------------

func c02DoModDown(be *ring.BasisExtender, rq, rp *ring.Ring, kind string, levelQ, levelP int, p1Q, p1P ring.Poly, r *SplitMix, N int) (out [][]uint64, pan bool) {
	lvl := levelQ
	if kind == "qptop" {
		lvl = levelP
	}
	p2 := c02JunkPoly(r, N, lvl+1) // one row more than needed: outputs may be allocated above the level too
	pan = c02Panics(func() {
		switch kind {
		case "qptoq":
			be.ModDownQPtoQ(levelQ, levelP, p1Q, p1P, p2)
		case "qptop":
			be.ModDownQPtoP(levelQ, levelP, p1Q, p1P, p2)
		case "qptoqntt":
			be.ModDownQPtoQNTT(levelQ, levelP, p1Q, p1P, p2)
		}
	})
	return c02RowsCopy(p2, lvl+1), pan
}

func c02OneModDown(c *Ctx, po bool, e *c02Env, be *ring.BasisExtender, kind string, levelQ, levelP int, X []*big.Int, hist string) {
	mQ, mP := e.ch.Q[:levelQ+1], e.ch.P[:levelP+1]
	inQ, inP := c02RowsOf(X, mQ), c02RowsOf(X, mP)
	p1Q, p1P := c02PolyOver(c.rng, e.N, inQ, e.over), c02PolyOver(c.rng, e.N, inP, e.over)
	var line string
	if kind == "qptoqntt" {
		e.ringQ.AtLevel(levelQ).NTT(p1Q, p1Q)
		e.ringP.AtLevel(levelP).NTT(p1P, p1P)
		inQ, inP = c02RowsCopy(p1Q, levelQ+1), c02RowsCopy(p1P, levelP+1)
		op := "moddownntt"
		if e.ci {
			op = "moddownnttci"
		}
		line = fmt.Sprintf(op+" %d %s %s %s %s %d %d %s %s", e.N, e.Qs, Vec(e.gQ), e.Ps, Vec(e.gP), levelQ, levelP, Mat(inQ), Mat(inP))
	} else {
		line = fmt.Sprintf("moddown %s %s %s %d %d %s %s", kind, e.Qs, e.Ps, levelQ, levelP, Mat(inQ), Mat(inP))
	}
	out, pan := c02DoModDown(be, e.ringQ, e.ringP, kind, levelQ, levelP, p1Q, p1P, c.rng, e.N)
	c.Count("moddown:" + kind)
	if pan {
		if !po {
			c.Emit(line, "panic")
		}
		c.Probe("no_panic", line, "C02/ModDown/"+kind+"/panic", "panicked")
	} else {
		if !po {
			c.Emit(line, Mat(out))
		}
		ref := out
		if kind == "qptoqntt" {
			t := c02PolyFromRows(e.N, out)
			e.ringQ.AtLevel(levelQ).INTT(t, t)
			ref = c02RowsCopy(t, levelQ+1)
		}
		c02ProbeModDown(c, kind, mQ, mP, X, ref, line)
		d := ""
		if !c02RowsEq(c02RowsCopy(p1Q, levelQ+1), inQ) || !c02RowsEq(c02RowsCopy(p1P, levelP+1), inP) {
			d = "input rewritten"
		}
		c.Probe("moddown_input_unchanged", line, "C02/ModDown/"+kind+"/input-rewritten", d)
	}
	if hist != "" {
		rq, rp := e.freshRings()
		outF, panF := c02DoModDown(ring.NewBasisExtender(rq, rp), rq, rp, kind, levelQ, levelP, c02PolyFromRows(e.N, inQ), c02PolyFromRows(e.N, inP), c.rng, e.N)
		c02HistoryProbe(c, "ModDown/"+kind, fmt.Sprintf("%s %s %d %d %s", e.Qs, e.Ps, levelQ, levelP, hist), out, pan, outF, panF)
	}
}

// ---- Decomposer.DecomposeAndSplit: every digit of one (levelQ, levelP) ---------------------------------

func c02OneDecomp(c *Ctx, po bool, e *c02Env, dec *ring.Decomposer, levelQ, levelP int, hist string) {
	r := c.rng
	ch := e.ch
	hasP := 0
	if e.ringP != nil {
		hasP = 1
	}
	mQ := ch.Q[:levelQ+1]
	nbPi := levelP + 1
	if e.ringP == nil {
		nbPi = 1 // the only sound value when there is no P: one digit per prime of Q
	}
	size := (levelQ + nbPi) / nbPi
	var Dg *big.Int
	if nbPi <= levelQ+1 {
		Dg = c02ProdBig(ch.Q[:nbPi])
	}
	X := c02FamValues(c, e.N, c02ProdBig(mQ), Dg)
	in := c02RowsOf(X, mQ)
	p0 := c02PolyFromRows(e.N, in)
	digitsQ := make([][][]uint64, size)
	digitsP := make([][][]uint64, size)
	var decF *ring.Decomposer
	if hist != "" {
		rq, rp := e.freshRings()
		decF = ring.NewDecomposer(rq, rp)
	}
	for d := 0; d < size; d++ {
		p1Q := c02JunkPoly(r, e.N, levelQ)
		for i := range p1Q.Coeffs {
			for j := range p1Q.Coeffs[i] {
				p1Q.Coeffs[i][j] %= ch.Q[i]
			}
		}
		prev := c02RowsCopy(p1Q, levelQ+1)
		var p1P ring.Poly
		if e.ringP != nil {
			p1P = c02JunkPoly(r, e.N, levelP)
		}
		lpTok := levelP
		if lpTok < 0 {
			lpTok = 0
		}
		line := fmt.Sprintf("decomp %s %s %d %d %d %d %d %s %s", e.Qs, e.Ps, hasP, levelQ, lpTok, nbPi, d, Mat(in), Mat(prev))
		pan := c02Panics(func() { dec.DecomposeAndSplit(levelQ, levelP, nbPi, d, p0, p1Q, p1P) })
		out := "panic"
		var all [][]uint64
		if !pan {
			digitsQ[d] = c02RowsCopy(p1Q, levelQ+1)
			all = append(all, digitsQ[d]...)
			out = Mat(digitsQ[d]) + "|"
			if e.ringP != nil {
				digitsP[d] = c02RowsCopy(p1P, levelP+1)
				all = append(all, digitsP[d]...)
				out += Mat(digitsP[d])
			} else {
				out += "-"
			}
		}
		if !po {
			c.Emit(line, out)
		}
		c.Count(fmt.Sprintf("decomp:nbPi=%d", nbPi))
		d2 := ""
		if !c02RowsEq(c02RowsCopy(p0, levelQ+1), in) {
			d2 = "input rewritten"
		}
		c.Probe("decomp_input_unchanged", line, "C02/DecomposeAndSplit/input-rewritten", d2)
		if decF != nil {
			fQ := c02PolyFromRows(e.N, prev)
			var fP ring.Poly
			if e.ringP != nil {
				fP = c02JunkPoly(r, e.N, levelP)
			}
			panF := c02Panics(func() { decF.DecomposeAndSplit(levelQ, levelP, nbPi, d, c02PolyFromRows(e.N, in), fQ, fP) })
			allF := c02RowsCopy(fQ, levelQ+1)
			if e.ringP != nil {
				allF = append(allF, c02RowsCopy(fP, levelP+1)...)
			}
			c02HistoryProbe(c, "DecomposeAndSplit", fmt.Sprintf("%s %s %d %d %d %s", e.Qs, e.Ps, levelQ, levelP, d, hist), all, pan, allF, panF)
		}
	}
	var mP []uint64
	if e.ringP != nil {
		mP = ch.P[:levelP+1]
	}
	c02ProbeDecomp(c, mQ, mP, nbPi, X, digitsQ, digitsP, fmt.Sprintf("%s %s %d %d %d %s", e.Qs, e.Ps, levelQ, levelP, nbPi, Mat(in)))
}

// ---- Div*ByLastModulus* -------------------------------------------------------------------------------

// c02OneDiv: one call at rl = (long-lived ring).AtLevel(level); nb <= level.
func c02OneDiv(c *Ctx, po bool, e *c02Env, rl *ring.Ring, kind string, level, nb int, X []*big.Int, hist string) {
	r := c.rng
	isNTT := strings.HasSuffix(kind, "ntt")
	isRound := strings.HasPrefix(kind, "round")
	outLevel := level - nb
	if outLevel < 0 {
		return
	}
	p0 := c02PolyOver(r, e.N, c02RowsOf(X, e.ch.Q[:level+1]), e.over)
	if isNTT {
		rl.NTT(p0, p0)
	}
	in := c02RowsCopy(p0, level+1)
	buff := c02JunkPoly(r, e.N, level)
	p1 := c02JunkPoly(r, e.N, outLevel)
	op := "div"
	if e.ci {
		op = "divci"
	}
	line := fmt.Sprintf(op+" %s %d %s %s %d %d %s", kind, e.N, e.Qs, Vec(e.gQ), level, nb, Mat(in))
	pan := c02Panics(func() { c02CallDiv(kind, rl, nb, p0, buff, p1) })
	out := c02RowsCopy(p1, outLevel+1)
	c.Count("div:" + kind)
	if pan {
		if !po {
			c.Emit(line, "panic")
		}
		c.Probe("no_panic", line, "C02/Div/"+kind+"/panic", "panicked")
	} else {
		if !po {
			c.Emit(line, Mat(out)+"|"+Mat(c02RowsCopy(p0, level+1)))
		}
		c02ProbeDiv(c, kind, isNTT, isRound, e.ringQ, level, nb, X, in, p0, p1, line)
	}
	if hist != "" {
		rq, _ := e.freshRings()
		f0 := c02PolyFromRows(e.N, in)
		fb := c02JunkPoly(r, e.N, level)
		f1 := c02JunkPoly(r, e.N, outLevel)
		panF := c02Panics(func() { c02CallDiv(kind, rq.AtLevel(level), nb, f0, fb, f1) })
		c02HistoryProbe(c, "Div/"+kind, fmt.Sprintf("%s %d %d %s", e.Qs, level, nb, hist), out, pan, c02RowsCopy(f1, outLevel+1), panF)
	}
}

// ---- sequences on long-lived objects -----------------------------------------------------------------

type c02Pair struct{ lq, lp int }

// c02LevelOrder: every (levelQ, levelP) in decreasing order, then increasing, then `extra` random ones.
func c02LevelOrder(r *SplitMix, lqs []int, nP int, extra int) []c02Pair {
	var asc []c02Pair
	for _, lq := range lqs {
		for lp := 0; lp < nP; lp++ {
			asc = append(asc, c02Pair{lq, lp})
		}
	}
	var out []c02Pair
	for i := len(asc) - 1; i >= 0; i-- {
		out = append(out, asc[i])
	}
	// increasing in levelQ for each fixed levelP (same levelP, growing levelQ back to back)
	for lp := 0; lp < nP; lp++ {
		for _, lq := range lqs {
			out = append(out, c02Pair{lq, lp})
		}
	}
	for k := 0; k < extra; k++ {
		out = append(out, asc[r.Intn(len(asc))])
	}
	return out
}

func c02History(c *Ctx, po bool, e *c02Env) {
	r := c.rng
	ch := e.ch
	lqs := c02Levels(len(ch.Q))
	step := 0
	tag := func() string { step++; return fmt.Sprintf("chain=%s step=%d", ch.tag, step) }
	// (1) one BasisExtender for the whole sequence
	if e.ringP != nil {
		be0 := ring.NewBasisExtender(e.ringQ, e.ringP)
		// three long-lived extenders sharing their read-only tables: the original, a shallow copy, a copy of the copy
		bes := []*ring.BasisExtender{be0, be0.ShallowCopy(), be0.ShallowCopy().ShallowCopy()}
		ops := []string{"qtop", "ptoq", "qptoq", "qptoqntt", "qptop"}
		order := c02LevelOrder(r, lqs, len(ch.P), c.Scale(4, 10))
		all := len(lqs)*len(ch.P) <= 4
		for _, pr := range order {
			mQ, mP := ch.Q[:pr.lq+1], ch.P[:pr.lp+1]
			MQ, MP := c02ProdBig(mQ), c02ProdBig(mP)
			sel := ops
			if !all {
				sel = []string{ops[r.Intn(2)], ops[2+r.Intn(3)], "qtop"}[:2+r.Intn(2)]
			}
			for _, op := range sel {
				be := bes[step%len(bes)]
				switch op {
				case "qtop":
					c02OneModUp(c, po, e, be, "qtop", pr.lq, pr.lp, c02FamValues(c, e.N, MQ, nil), tag())
				case "ptoq":
					c02OneModUp(c, po, e, be, "ptoq", pr.lq, pr.lp, c02FamValues(c, e.N, MP, nil), tag())
				default:
					D := MP
					if op == "qptop" {
						D = MQ
					}
					c02OneModDown(c, po, e, be, op, pr.lq, pr.lp, c02FamValues(c, e.N, new(big.Int).Mul(MQ, MP), D), tag())
				}
				c.Count("history:basisextender-call")
			}
		}
	}
	// (2) one Decomposer
	{
		dec := ring.NewDecomposer(e.ringQ, e.ringP)
		nP := len(ch.P)
		if e.ringP == nil {
			nP = 1
		}
		for _, pr := range c02LevelOrder(r, lqs, nP, c.Scale(2, 12)) {
			lp := pr.lp
			if e.ringP == nil {
				lp = -1
			}
			c02OneDecomp(c, po, e, dec, pr.lq, lp, tag())
			c.Count("history:decomposer-call")
		}
	}
	// (3) one Ring (and one AtLevel view per level) for every Div* call
	{
		views := map[int]*ring.Ring{}
		view := func(l int) *ring.Ring {
			if views[l] == nil {
				views[l] = e.ringQ.AtLevel(l)
			}
			return views[l]
		}
		var lv []int
		for i := len(lqs) - 1; i >= 0; i-- {
			lv = append(lv, lqs[i])
		}
		lv = append(lv, lqs...)
		for k := 0; k < c.Scale(3, 12); k++ {
			lv = append(lv, lqs[r.Intn(len(lqs))])
		}
		for _, level := range lv {
			if level == 0 {
				continue
			}
			M := c02ProdBig(ch.Q[:level+1])
			D := c02BigU(ch.Q[level])
			n := c.Scale(2, 4)
			for k := 0; k < n; k++ {
				kind := c02DivKinds[r.Intn(len(c02DivKinds))]
				nb := 1
				if strings.Contains(kind, "many") {
					nb = r.Intn(level + 1)
				}
				c02OneDiv(c, po, e, view(level), kind, level, nb, c02FamValues(c, e.N, M, D), tag())
				c.Count("history:div-call")
			}
		}
	}
}

// ---- conjugate-invariant rings (and the smallest ring degree) -----------------------------------------

// c02CI: the NTT-domain divisions and ModDownQPtoQNTT on NewRingConjugateInvariant rings (NthRoot = 4N), whose
// INTTLazy is lazy ([1, 2q)) for EVERY N.  Ties (ops divci, moddownnttci) + the same reference probes.
func c02CI(c *Ctx, po bool, ch c02Chain, N int) {
	ringQ, err := ring.NewRingConjugateInvariant(N, ch.Q)
	if err != nil {
		c.Count("ci-ring-error")
		return
	}
	var ringP *ring.Ring
	if len(ch.P) > 0 {
		if ringP, err = ring.NewRingConjugateInvariant(N, ch.P); err != nil {
			c.Count("ci-ring-error")
			return
		}
	}
	e := c02NewEnv(N, ringQ, ringP, ch)
	e.ci = true
	c.Count(fmt.Sprintf("ci-chain:N=%d", N))
	views := map[int]*ring.Ring{}
	for _, level := range c02Levels(len(ch.Q)) {
		if level == 0 {
			continue
		}
		views[level] = ringQ.AtLevel(level)
		M := c02ProdBig(ch.Q[:level+1])
		D := c02BigU(ch.Q[level])
		for _, kind := range []string{"floorntt", "roundntt", "floormanyntt", "roundmanyntt"} {
			nbs := []int{1}
			if strings.Contains(kind, "many") {
				nbs = []int{0, 1, level}
			}
			for _, nb := range nbs {
				for _, X := range c02DivInputs(c, N, M, D) {
					c02OneDiv(c, po, e, views[level], kind, level, nb, X, fmt.Sprintf("ci N=%d", N))
				}
			}
		}
	}
	if ringP != nil {
		be0 := ring.NewBasisExtender(ringQ, ringP)
		bes := []*ring.BasisExtender{be0, be0.ShallowCopy(), be0.ShallowCopy().ShallowCopy()}
		for li, levelQ := range c02Levels(len(ch.Q)) {
			be := bes[li%len(bes)]
			levelP := c.rng.Intn(len(ch.P))
			MQP := new(big.Int).Mul(c02ProdBig(ch.Q[:levelQ+1]), c02ProdBig(ch.P[:levelP+1]))
			c02OneModDown(c, po, e, be, "qptoqntt", levelQ, levelP, c02FamValues(c, N, MQP, c02ProdBig(ch.P[:levelP+1])), fmt.Sprintf("ci N=%d", N))
			c02OneModDown(c, po, e, be, "qptoqntt", levelQ, levelP, c02ConstValues(N, new(big.Int)), fmt.Sprintf("ci0 N=%d", N))
		}
	}
}

// c02DivInputs: the boundary families, the ZERO polynomial and multiples of the divisor (last residue 0).
func c02DivInputs(c *Ctx, N int, M, D *big.Int) [][]*big.Int {
	mult := make([]*big.Int, N)
	K := new(big.Int).Div(M, D)
	for j := range mult {
		mult[j] = new(big.Int).Mul(c02RandBelow(c.rng, K), D)
	}
	c.Count("coef:zero-polynomial")
	c.Count("coef:multiples-of-divisor")
	return [][]*big.Int{c02FamValues(c, N, M, D), c02ConstValues(N, new(big.Int)), mult}
}
