package main

// C04 — (1) the LAZY API with caller-owned accumulators: GadgetProductLazy / GadgetProductHoistedLazy followed by
// Evaluator.ModDown into a distinct ciphertext must equal the one-shot GadgetProduct bit for bit — keys with P, keys at
// LevelP = -1 under parameters that have a P, parameters without P; same- and cross-domain receivers.
// (2) automorphisms for EVERY element of the group including galEl = 1, into receivers whose metadata (IsNTT, scale,
// LogDimensions, IsBatched) differ from the input's: value and full metadata. (3) AutomorphismHoistedLazy with a key at
// LevelP = -1 (digits supplied by the caller).

import (
	"fmt"

	"github.com/tuneinsight/lattigo/v6/core/rlwe"
	"github.com/tuneinsight/lattigo/v6/ring"
	"github.com/tuneinsight/lattigo/v6/ring/ringqp"
)

func (ps *c04PS) c04NewQP(lvl, lp int) *rlwe.Element[ringqp.Poly] {
	e := &rlwe.Element[ringqp.Poly]{}
	e.Value = []ringqp.Poly{ps.params.RingQP().AtLevel(lvl, lp).NewPoly(), ps.params.RingQP().AtLevel(lvl, lp).NewPoly()}
	return e
}

// c04LazyModDown: lazy product into a caller-owned accumulator, then ModDown into a distinct receiver.
func c04LazyModDown(c *Ctx, ps *c04PS, eval *rlwe.Evaluator, cfg c04KeyCfg, isNTT bool, evk *rlwe.EvaluationKey, ct *rlwe.Ciphertext, oneShot string) {
	if oneShot == "err" || oneShot == "panic" {
		return
	}
	lvl := ct.Level()
	hasP := "params-with-P"
	if len(ps.P) == 0 {
		hasP = "params-without-P"
	}
	args := fmt.Sprintf("%s %d %d %d lvl=%d ntt=%s %s", ps.hdr(), cfg.lq, cfg.lp, cfg.w, lvl, c04B2s(isNTT), hasP)
	run := func(name string, lazy func(q *rlwe.Element[ringqp.Poly]) error) {
		for _, outNTT := range []bool{isNTT, !isNTT} {
			ctQP := ps.c04NewQP(lvl, cfg.lp)
			ctQP.MetaData = ct.MetaData.CopyNew()
			out := ps.c04JunkCt(c, 1, lvl, outNTT) // a receiver that shares nothing with the accumulator
			got := Try(func() string {
				if err := lazy(ctQP); err != nil {
					return "err"
				}
				eval.ModDown(lvl, cfg.lp, ctQP, out)
				return c04Polys(ps.ctPolysAt(out, 1, lvl))
			})
			detail := ""
			switch {
			case got == "err" || got == "panic":
				detail = name + "+ModDown " + got
			case got != oneShot:
				detail = "lazy product + ModDown differs from the one-shot GadgetProduct"
			}
			dom := "same-domain"
			if outNTT != isNTT {
				dom = "cross-domain"
			}
			c.Probe("lazy_moddown_eq_oneshot", fmt.Sprintf("%s %s %s", name, dom, args), fmt.Sprintf("C04-%s-ModDown-levelP%d-%s", name, cfg.lp, dom), detail)
			c.Count(fmt.Sprintf("lazymoddown:%s:lp%d:%s", name, cfg.lp, hasP))
		}
	}
	run("GadgetProductLazy", func(q *rlwe.Element[ringqp.Poly]) error {
		return eval.GadgetProductLazy(lvl, ct.Value[1], &evk.GadgetCiphertext, q)
	})
	if cfg.w == 0 {
		run("GadgetProductHoistedLazy", func(q *rlwe.Element[ringqp.Poly]) error {
			decomp := ps.c04Digits(eval, cfg, ct.Value[1], isNTT, lvl)
			return eval.GadgetProductHoistedLazy(lvl, decomp, &evk.GadgetCiphertext, q)
		})
	}
}

// c04Digits returns the RNS digits (NTT domain) of c1 for a key at cfg.lp: DecomposeNTT when the key has a P, and the
// single-prime digits built with the exported Decomposer when it has none (DecomposeNTT needs a ring P).
func (ps *c04PS) c04Digits(eval *rlwe.Evaluator, cfg c04KeyCfg, c1 ring.Poly, isNTT bool, lvl int) []ringqp.Poly {
	if cfg.lp >= 0 {
		eval.DecomposeNTT(lvl, cfg.lp, cfg.lp+1, c1, isNTT, eval.BuffDecompQP)
		return eval.BuffDecompQP
	}
	r := ps.params.RingQ().AtLevel(lvl)
	inv := r.NewPoly()
	if isNTT {
		r.INTT(c1, inv)
	} else {
		inv.CopyLvl(lvl, c1)
	}
	out := make([]ringqp.Poly, lvl+1)
	for i := 0; i <= lvl; i++ {
		d := ps.params.RingQP().AtLevel(lvl, -1).NewPoly()
		eval.Decomposer.DecomposeAndSplit(lvl, -1, 1, i, inv, d.Q, d.P)
		r.NTT(d.Q, d.Q)
		out[i] = d
	}
	return out
}

func c04MetaDiff(a, b *rlwe.MetaData) string {
	switch {
	case a.IsNTT != b.IsNTT:
		return "IsNTT"
	case a.IsMontgomery != b.IsMontgomery:
		return "IsMontgomery"
	case a.Scale.Cmp(b.Scale) != 0:
		return "Scale"
	case a.LogDimensions != b.LogDimensions:
		return "LogDimensions"
	case a.IsBatched != b.IsBatched:
		return "IsBatched"
	case !a.Equal(b):
		return "Equal()"
	}
	return ""
}

// c04AutMeta: automorphism by g (1 included) into a receiver whose metadata differ from the input's.
func c04AutMeta(c *Ctx, ps *c04PS, cfg c04KeyCfg, eval *rlwe.Evaluator, ct *rlwe.Ciphertext, g uint64, fresh string, isNTT bool, pargs string) {
	lvl := ct.Level()
	// distinctive metadata on the input
	ct.Scale = rlwe.NewScale(12345)
	ct.LogDimensions = ring.Dimensions{Rows: 1, Cols: 2}
	ct.IsBatched = true
	mk := func() *rlwe.Ciphertext {
		o := ps.c04JunkCt(c, 1, lvl, !isNTT)
		o.Scale = rlwe.NewScale(777)
		o.LogDimensions = ring.Dimensions{Rows: 0, Cols: 5}
		o.IsBatched = false
		return o
	}
	check := func(variant string, run func(o *rlwe.Ciphertext) error) {
		o := mk()
		got := Try(func() string {
			if err := run(o); err != nil {
				return "err"
			}
			return "ok"
		})
		detail := ""
		switch {
		case got != "ok":
			detail = variant + " " + got
		case o.Level() != lvl || o.Degree() != 1:
			detail = fmt.Sprintf("level %d degree %d", o.Level(), o.Degree())
		default:
			if d := c04MetaDiff(o.MetaData, ct.MetaData); d != "" {
				detail = "stale metadata: " + d
			} else if v := c04Polys(ps.ctPolysAt(o, 1, lvl)); v != fresh {
				detail = "value differs from the expected result"
			}
		}
		c.Probe("automorphism_metadata", fmt.Sprintf("%s galEl=%d %s", variant, g, pargs), fmt.Sprintf("C04-automorphism-metadata-%s-galEl%s", variant, map[bool]string{true: "1", false: "other"}[g == 1]), detail)
		c.Count(fmt.Sprintf("autmeta:%s:g1=%v", variant, g == 1))
	}
	check("plain", func(o *rlwe.Ciphertext) error { return eval.Automorphism(ct, g, o) })
	if cfg.w == 0 && cfg.lp >= 0 {
		check("hoisted", func(o *rlwe.Ciphertext) error {
			eval.DecomposeNTT(lvl, cfg.lp, cfg.lp+1, ct.Value[1], ct.IsNTT, eval.BuffDecompQP)
			return eval.AutomorphismHoisted(lvl, ct, eval.BuffDecompQP, g, o)
		})
	}
}

// c04AutLazyNoP: AutomorphismHoistedLazy with a Galois key at LevelP = -1 (digits built by the caller), then ModDown.
func c04AutLazyNoP(c *Ctx, ps *c04PS, cfg c04KeyCfg, eval *rlwe.Evaluator, ct *rlwe.Ciphertext, g uint64, plain string, isNTT bool, pargs string) {
	if cfg.lp != -1 || cfg.w != 0 || plain == "err" || plain == "panic" {
		return
	}
	lvl := ct.Level()
	ctQP := ps.c04NewQP(lvl, -1)
	ctQP.MetaData = ct.MetaData.CopyNew()
	out := ps.c04JunkCt(c, 1, lvl, isNTT)
	got := Try(func() string {
		decomp := ps.c04Digits(eval, cfg, ct.Value[1], isNTT, lvl)
		if err := eval.AutomorphismHoistedLazy(lvl, ct, decomp, g, ctQP); err != nil {
			return "err"
		}
		eval.ModDown(lvl, -1, ctQP, out)
		return c04Polys(ps.ctPolysAt(out, 1, lvl))
	})
	detail := ""
	switch {
	case got == "err" || got == "panic":
		detail = "AutomorphismHoistedLazy " + got
	case got != plain:
		detail = "hoisted-lazy result (LevelP = -1) differs from Automorphism"
	}
	c.Probe("hoistedlazy_noP_eq_plain", fmt.Sprintf("galEl=%d %s", g, pargs), "C04-AutomorphismHoistedLazy-levelP-minus1", detail)
	c.Count("autlazy-noP")
}
