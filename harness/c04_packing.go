package main

// C04 — RLWE ring packing (Split / Merge / Extract) on the real code: decrypt-and-compare probes only
// (no model): the key switches inside are ApplyEvaluationKey / Automorphism, tied elsewhere.

import (
	"fmt"
	"math/big"

	"github.com/tuneinsight/lattigo/v6/core/rlwe"
)

func c04Packing(c *Ctx) {
	rounds := c.Scale(3, 24)
	for r := 0; r < rounds; r++ {
		logN := 5
		if c.Thorough() && c.rng.Intn(2) == 0 {
			logN = 6
		}
		minLogN := logN - 1 - c.rng.Intn(2)
		if minLogN < 4 {
			minLogN = 4
		}
		nQ := 1 + c.rng.Intn(3)
		nP := 1 + c.rng.Intn(2)
		var ps *c04PS
		for try := 0; try < 20 && ps == nil; try++ {
			bq := make([]int, nQ)
			for i := range bq {
				bq[i] = 40 + c.rng.Intn(16)
			}
			bp := make([]int, nP)
			for i := range bp {
				bp[i] = 40 + c.rng.Intn(16)
			}
			Q, P, ok := c04Primes(logN, bq, bp)
			if !ok {
				continue
			}
			if p, err := c04NewPS(logN, Q, P, true); err == nil {
				ps = p
			}
		}
		if ps == nil {
			continue
		}
		cfg := c04KeyCfg{lq: nQ - 1, lp: nP - 1}
		if nP == 1 && c.rng.Intn(2) == 0 {
			cfg.w = 10 + c.rng.Intn(21)
		}
		args := fmt.Sprintf("%s minLogN=%d w=%d", ps.hdr(), minLogN, cfg.w)
		c.Count(fmt.Sprintf("packing:logN%d:min%d:Q%d:P%d:w%d", logN, minLogN, nQ, nP, cfg.w))

		sk := rlwe.NewKeyGenerator(ps.params).GenSecretKeyNew()
		rpk := &rlwe.RingPackingEvaluationKey{}
		var ski map[int]*rlwe.SecretKey
		var eval *rlwe.RingPackingEvaluator
		setup := Try(func() string {
			var err error
			if ski, err = rpk.GenRingSwitchingKeys(ps.params, sk, minLogN, cfg.evkParams()); err != nil {
				return "err"
			}
			rpk.GenRepackEvaluationKeys(rpk.Parameters[minLogN], ski[minLogN], cfg.evkParams())
			rpk.GenRepackEvaluationKeys(rpk.Parameters[logN], ski[logN], cfg.evkParams())
			rpk.GenExtractEvaluationKeys(rpk.Parameters[minLogN], ski[minLogN], cfg.evkParams())
			eval = rlwe.NewRingPackingEvaluator(rpk)
			return "ok"
		})
		if setup != "ok" {
			c.Probe("packing_setup", args, "C04-packing-setup-"+setup, "setup "+setup)
			continue
		}
		half := &c04PS{params: *rpk.Parameters[logN-1].GetRLWEParameters(), logN: logN - 1, Q: ps.Q, P: ps.P}
		small := &c04PS{params: *rpk.Parameters[minLogN].GetRLWEParameters(), logN: minLogN, Q: ps.Q, P: ps.P}
		lvl := cfg.lq
		shape := ps.params.BaseTwoDecompositionVectorSize(cfg.lq, cfg.lp, cfg.w)
		if cfg.lp > 0 {
			shape = shape[:ps.params.BaseRNSDecompositionVectorSize(cfg.lq, cfg.lp)]
		}
		bound := ps.ksNoiseBound(lvl, cfg.lp, cfg.w, shape)
		class := c04Classify(ps, cfg, lvl, shape)

		// ---- Split: ctN[X] = even[Y] + X*odd[Y]
		{
			m := c04SmallVec(c, ps.N(), 1<<17)
			e := c04SmallVec(c, ps.N(), 3)
			ct := ps.mkCt(sk, m, e, [][][]uint64{ps.randRows(c, lvl)}, true)
			var ev, od *rlwe.Ciphertext
			res := Try(func() string {
				var err error
				if ev, od, err = eval.SplitNew(ct); err != nil {
					return "err"
				}
				return "ok"
			})
			if res != "ok" {
				c.Probe("split_completes", args, "C04-split-"+res, "Split "+res)
			} else {
				me := make([]int64, half.N())
				mo := make([]int64, half.N())
				for j := range me {
					me[j], mo[j] = m[2*j], m[2*j+1]
				}
				c04ProbeNoise(c, half, "split_even_decrypts", args, ev, ski[logN-1], me, bound, class)
				c04ProbeNoise(c, half, "split_odd_decrypts", args, od, ski[logN-1], mo, bound, class)
			}
		}
		// ---- Merge
		{
			me := c04SmallVec(c, half.N(), 1<<17)
			mo := c04SmallVec(c, half.N(), 1<<17)
			cte := half.mkCt(ski[logN-1], me, c04SmallVec(c, half.N(), 3), [][][]uint64{half.randRows(c, lvl)}, true)
			cto := half.mkCt(ski[logN-1], mo, c04SmallVec(c, half.N(), 3), [][][]uint64{half.randRows(c, lvl)}, true)
			var ctN *rlwe.Ciphertext
			res := Try(func() string {
				var err error
				if ctN, err = eval.MergeNew(cte, cto); err != nil {
					return "err"
				}
				return "ok"
			})
			if res != "ok" {
				c.Probe("merge_completes", args, "C04-merge-"+res, "Merge "+res)
			} else {
				m := make([]int64, ps.N())
				for j := range me {
					m[2*j], m[2*j+1] = me[j], mo[j]
				}
				b2 := new(big.Int).Add(bound, big.NewInt(3)) // two input noises
				c04ProbeNoise(c, ps, "merge_decrypts", args, ctN, sk, m, b2, class)
			}
		}
		// ---- Extract (non naive): constant coefficient of ciphertext i = coefficient i of the input
		{
			m := c04SmallVec(c, ps.N(), 1<<17)
			e := c04SmallVec(c, ps.N(), 3)
			ct := ps.mkCt(sk, m, e, [][][]uint64{ps.randRows(c, lvl)}, true)
			gap := 1 + c.rng.Intn(5)
			idx := map[int]bool{}
			for i := 0; i*gap < ps.N(); i++ {
				idx[i*gap] = true
			}
			var cts map[int]*rlwe.Ciphertext
			res := Try(func() string {
				var err error
				if cts, err = eval.Extract(ct, idx); err != nil {
					return "err"
				}
				return "ok"
			})
			if res != "ok" {
				c.Probe("extract_completes", args, "C04-extract-"+res, "Extract "+res)
			} else {
				// generous bound: (logN - minLogN) ring switches + logMin automorphisms, each noise doubled along the
				// expansion tree, times N for the trace normalisation
				nks := int64(2*logN + 4)
				b := new(big.Int).Mul(bound, big.NewInt(nks*int64(ps.N())*int64(ps.N())))
				detail := ""
				if len(cts) != len(idx) {
					detail = fmt.Sprintf("got %d ciphertexts for %d indices", len(cts), len(idx))
				}
				worst := new(big.Int)
				halfQ := c04ProdBig(ps.Q[:lvl+1])
				halfQ.Rsh(halfQ, 1)
				vac := new(big.Int).Add(b, big.NewInt(1<<18)).Cmp(halfQ) >= 0
				if !vac && detail == "" {
					for i := range idx {
						cti, ok := cts[i]
						if !ok {
							detail = fmt.Sprintf("index %d missing", i)
							break
						}
						want := make([]int64, small.N())
						want[0] = m[i]
						// only the constant coefficient is specified: compare it alone
						n0 := small.noiseConst(cti, ski[minLogN], want[0])
						if n0.Cmp(worst) > 0 {
							worst.Set(n0)
						}
					}
					if detail == "" && worst.Cmp(b) > 0 {
						detail = fmt.Sprintf("noise=%s(bits=%d) bound=%s(bits=%d)", worst, worst.BitLen(), b, b.BitLen())
					}
				}
				if vac {
					c.Count("probe-vacuous:extract_decrypts")
				} else {
					key := "C04-extract_decrypts"
					if class != "" {
						key = class
					}
					c.Probe("extract_decrypts", fmt.Sprintf("%s gap=%d", args, gap), key, detail)
				}
			}
		}
	}
}

// noiseConst returns |Dec(ct)[0] - want| (centred).
func (ps *c04PS) noiseConst(ct *rlwe.Ciphertext, sk *rlwe.SecretKey, want int64) *big.Int {
	dec := rlwe.NewDecryptor(ps.params, sk)
	pt := rlwe.NewPlaintext(ps.params, ct.Level())
	dec.Decrypt(ct, pt)
	lvl := ct.Level()
	r := ps.params.RingQ().AtLevel(lvl)
	p := r.NewPoly()
	p.CopyLvl(lvl, pt.Value)
	if pt.IsNTT {
		r.INTT(p, p)
	}
	coeffs := make([]*big.Int, ps.N())
	for i := range coeffs {
		coeffs[i] = new(big.Int)
	}
	r.PolyToBigintCentered(p, 1, coeffs)
	d := new(big.Int).Sub(coeffs[0], big.NewInt(want))
	return d.Abs(d)
}
