package main

// C04 — RLWE ring packing (Split / Merge / Extract) on the real code: decrypt-and-compare probes only
// (no model): the key switches inside are ApplyEvaluationKey / Automorphism, tied elsewhere.

import (
	"fmt"
	"math/big"
	"math/bits"
	"sort"

	"github.com/tuneinsight/lattigo/v6/core/rlwe"
)

func c04Packing(c *Ctx) {
	rounds := c.Scale(3, 24)
	for r := 0; r < rounds; r++ {
		logN := 5
		if c.rng.Intn(2) == 0 {
			logN = 6
		}
		minLogN := logN - 1 - c.rng.Intn(2)
		if minLogN < 4 {
			minLogN = 4
		}
		nQ := 1 + c.rng.Intn(3)
		nP := 1 + c.rng.Intn(2)
		var ps *c04PS
		for try := 0; try < 20 && ps == nil; try++ {
			bq := make([]int, nQ)
			for i := range bq {
				bq[i] = 40 + c.rng.Intn(16)
			}
			bp := make([]int, nP)
			for i := range bp {
				bp[i] = 40 + c.rng.Intn(16)
			}
			Q, P, ok := c04Primes(logN, bq, bp)
			if !ok {
				continue
			}
			if p, err := c04NewPS(logN, Q, P, true); err == nil {
				ps = p
			}
		}
		if ps == nil {
			continue
		}
		cfg := c04KeyCfg{lq: nQ - 1, lp: nP - 1}
		if nP == 1 && c.rng.Intn(2) == 0 {
			cfg.w = 10 + c.rng.Intn(21)
		}
		args := fmt.Sprintf("%s minLogN=%d w=%d eval=%s", ps.hdr(), minLogN, cfg.w, c04PackEvalName(r))
		c.Count("packing:eval=" + c04PackEvalName(r))
		c.Count(fmt.Sprintf("packing:logN%d:min%d:Q%d:P%d:w%d", logN, minLogN, nQ, nP, cfg.w))

		sk := rlwe.NewKeyGenerator(ps.params).GenSecretKeyNew()
		rpk := &rlwe.RingPackingEvaluationKey{}
		var ski map[int]*rlwe.SecretKey
		var eval *rlwe.RingPackingEvaluator
		setup := Try(func() string {
			var err error
			if ski, err = rpk.GenRingSwitchingKeys(ps.params, sk, minLogN, cfg.evkParams()); err != nil {
				return "err"
			}
			rpk.GenRepackEvaluationKeys(rpk.Parameters[minLogN], ski[minLogN], cfg.evkParams())
			rpk.GenRepackEvaluationKeys(rpk.Parameters[logN], ski[logN], cfg.evkParams())
			rpk.GenExtractEvaluationKeys(rpk.Parameters[minLogN], ski[minLogN], cfg.evkParams())
			eval = c04PackEval(rlwe.NewRingPackingEvaluator(rpk), r)
			return "ok"
		})
		if setup != "ok" {
			c.Probe("packing_setup", args, "C04-packing-setup-"+setup, "setup "+setup)
			continue
		}
		half := &c04PS{params: *rpk.Parameters[logN-1].GetRLWEParameters(), logN: logN - 1, Q: ps.Q, P: ps.P}
		small := &c04PS{params: *rpk.Parameters[minLogN].GetRLWEParameters(), logN: minLogN, Q: ps.Q, P: ps.P}
		lvl := cfg.lq
		shape := ps.params.BaseTwoDecompositionVectorSize(cfg.lq, cfg.lp, cfg.w)
		if cfg.lp > 0 {
			shape = shape[:ps.params.BaseRNSDecompositionVectorSize(cfg.lq, cfg.lp)]
		}
		bound := ps.ksNoiseBound(lvl, cfg.lp, cfg.w, shape)
		class := c04Classify(ps, cfg, lvl, shape)
		if class == "" && r%3 != 0 {
			class = "C04-ringpacking-" + c04PackEvalName(r) // failing only through a copied evaluator
		}

		// ---- Split: ctN[X] = even[Y] + X*odd[Y]
		{
			m := c04SmallVec(c, ps.N(), 1<<17)
			e := c04SmallVec(c, ps.N(), 3)
			splitNTT := c.rng.Intn(2) == 0
			c.Count("split:ntt" + c04B2s(splitNTT))
			ct := ps.mkCt(sk, m, e, [][][]uint64{ps.randRows(c, lvl)}, splitNTT)
			var ev, od *rlwe.Ciphertext
			res := Try(func() string {
				var err error
				if ev, od, err = eval.SplitNew(ct); err != nil {
					return "err"
				}
				return "ok"
			})
			if res != "ok" {
				c.Probe("split_completes", args, "C04-split-"+res, "Split "+res)
			} else {
				me := make([]int64, half.N())
				mo := make([]int64, half.N())
				for j := range me {
					me[j], mo[j] = m[2*j], m[2*j+1]
				}
				sclass := class
				if sclass == "" && !splitNTT {
					sclass = "C04-ringpacking-nonNTT-input"
				}
				c04ProbeNoise(c, half, "split_even_decrypts", args, ev, ski[logN-1], me, bound, sclass)
				c04ProbeNoise(c, half, "split_odd_decrypts", args, od, ski[logN-1], mo, bound, sclass)
			}
		}
		// ---- Merge
		{
			me := c04SmallVec(c, half.N(), 1<<17)
			mo := c04SmallVec(c, half.N(), 1<<17)
			mergeNTT := c.rng.Intn(2) == 0
			c.Count("merge:ntt" + c04B2s(mergeNTT))
			cte := half.mkCt(ski[logN-1], me, c04SmallVec(c, half.N(), 3), [][][]uint64{half.randRows(c, lvl)}, mergeNTT)
			cto := half.mkCt(ski[logN-1], mo, c04SmallVec(c, half.N(), 3), [][][]uint64{half.randRows(c, lvl)}, mergeNTT)
			var ctN *rlwe.Ciphertext
			res := Try(func() string {
				var err error
				if ctN, err = eval.MergeNew(cte, cto); err != nil {
					return "err"
				}
				return "ok"
			})
			if res != "ok" {
				c.Probe("merge_completes", args, "C04-merge-"+res, "Merge "+res)
			} else {
				m := make([]int64, ps.N())
				for j := range me {
					m[2*j], m[2*j+1] = me[j], mo[j]
				}
				b2 := new(big.Int).Add(bound, big.NewInt(3)) // two input noises
				mclass := class
				if mclass == "" && !mergeNTT {
					mclass = "C04-ringpacking-nonNTT-input"
				}
				c04ProbeNoise(c, ps, "merge_decrypts", args, ctN, sk, m, b2, mclass)
			}
		}
		// ---- Extract / ExtractNaive / Expand / Repack∘Extract over families of index sets.
		// Extract (non naive): ciphertext i decrypts to EXACTLY c[i]*X^0 — every other coefficient is zero within noise.
		rpk.GenExtractEvaluationKeys(rpk.Parameters[logN], sk, cfg.evkParams()) // for Expand at the large ring
		eval = c04PackEval(rlwe.NewRingPackingEvaluator(rpk), r)
		{
			N := ps.N()
			type idxSet struct {
				name string
				idx  []int
			}
			var sets []idxSet
			all := make([]int, N)
			for i := range all {
				all[i] = i
			}
			sets = append(sets, idxSet{"all", all})
			sets = append(sets, idxSet{"single", []int{c.rng.Intn(N)}})
			for k := 1; k < logN; k++ {
				if !c.Thorough() && k != 1 && k != logN-minLogN && k != logN-minLogN+1 && c.rng.Intn(2) == 0 {
					continue
				}
				var v []int
				for i := 0; i < N; i += 1 << k {
					v = append(v, i)
				}
				sets = append(sets, idxSet{fmt.Sprintf("gap2^%d", k), v})
			}
			{
				gap := []int{3, 5, 6, 12}[c.rng.Intn(4)]
				var v []int
				for i := c.rng.Intn(gap); i < N; i += gap {
					v = append(v, i)
				}
				sets = append(sets, idxSet{fmt.Sprintf("ap%d", gap), v})
				var w []int
				for i := 0; i < N; i++ {
					if c.rng.Intn(3) == 0 {
						w = append(w, i)
					}
				}
				if len(w) == 0 {
					w = []int{0}
				}
				sets = append(sets, idxSet{"random", w})
			}
			nks := int64(2*logN + 4)
			b := new(big.Int).Mul(new(big.Int).Add(bound, big.NewInt(8)), big.NewInt(nks*int64(N)*int64(N)))
			halfQ := c04ProdBig(ps.Q[:lvl+1])
			halfQ.Rsh(halfQ, 1)
			vac := new(big.Int).Add(new(big.Int).Mul(b, big.NewInt(4)), big.NewInt(1<<32)).Cmp(halfQ) >= 0
			for _, st := range sets {
				if vac {
					c.Count("probe-vacuous:extract_decrypts")
					break
				}
				m := c04SmallVec(c, N, 1<<30) // messages far above the noise bound: a misplaced coefficient is visible
				ntt := c.rng.Intn(2) == 0
				mk := func() *rlwe.Ciphertext {
					return ps.mkCt(sk, m, c04SmallVec(c, N, 3), [][][]uint64{ps.randRows(c, lvl)}, ntt)
				}
				idx := map[int]bool{}
				for _, i := range st.idx {
					idx[i] = true
				}
				sargs := fmt.Sprintf("%s set=%s n=%d ntt=%s", args, st.name, len(st.idx), c04B2s(ntt))
				c.Count("extract:set:" + st.name)
				// root-cause tags of the two ring-packing findings: coefficient-domain input; index set with an offset
				// (not every index is a multiple of 2^v2(smallest gap))
				offsetSet := false
				{
					minDiff, or := 0, 0
					for k, i := range st.idx {
						or |= i
						if k > 0 && (minDiff == 0 || st.idx[k]-st.idx[k-1] < minDiff) {
							minDiff = st.idx[k] - st.idx[k-1]
						}
					}
					if minDiff > 0 && or != 0 && bits.TrailingZeros(uint(or)) < bits.TrailingZeros(uint(minDiff)) {
						offsetSet = true
					}
				}
				key := func(name string) string {
					switch {
					case class != "":
						return class
					case offsetSet:
						return "C04-ringpacking-offset-index-set"
					case !ntt:
						return "C04-ringpacking-nonNTT-input"
					}
					return "C04-" + name
				}
				check := func(name string, cts map[int]*rlwe.Ciphertext, allCoeffs bool) bool {
					detail := ""
					if len(cts) != len(idx) {
						detail = fmt.Sprintf("got %d ciphertexts for %d indices", len(cts), len(idx))
					}
					worst := new(big.Int)
					at := -1
					for _, i := range st.idx {
						if detail != "" {
							break
						}
						cti, ok := cts[i]
						switch {
						case !ok || cti == nil:
							detail = fmt.Sprintf("index %d missing", i)
						case cti.LogN() != minLogN || cti.Level() != lvl || cti.Degree() != 1:
							detail = fmt.Sprintf("index %d: LogN=%d level=%d degree=%d (want %d, %d, 1)", i, cti.LogN(), cti.Level(), cti.Degree(), minLogN, lvl)
						default:
							var n0 *big.Int
							if allCoeffs {
								want := make([]int64, small.N())
								want[0] = m[i]
								n0 = small.noiseOf(cti, ski[minLogN], want)
							} else {
								n0 = small.noiseConst(cti, ski[minLogN], m[i])
							}
							if n0.Cmp(worst) > 0 {
								worst.Set(n0)
								at = i
							}
						}
					}
					if detail == "" && worst.Cmp(b) > 0 {
						detail = fmt.Sprintf("noise=%s(bits=%d) at index %d bound=%s(bits=%d)", worst, worst.BitLen(), at, b, b.BitLen())
					}
					c.Probe(name, sargs, key(name), detail)
					return detail == ""
				}
				want := make([]int64, N)
				for _, i := range st.idx {
					want[i] = m[i]
				}
				b2 := new(big.Int).Mul(b, big.NewInt(4))
				// Extract, then Repack / RepackNaive of the extracted ciphertexts
				for _, naiveRepack := range []bool{false, true} {
					var cts map[int]*rlwe.Ciphertext
					res := Try(func() string {
						var err error
						if cts, err = eval.Extract(mk(), idx); err != nil {
							return "err"
						}
						return "ok"
					})
					if res != "ok" {
						c.Probe("extract_completes", sargs, key("extract-"+res), "Extract "+res)
						continue
					}
					if !naiveRepack && !check("extract_decrypts", cts, true) {
						continue
					}
					var back *rlwe.Ciphertext
					name := "repack_extract_roundtrip"
					if naiveRepack {
						name = "repacknaive_extract_roundtrip"
					}
					res = Try(func() string {
						var err error
						if naiveRepack {
							back, err = eval.RepackNaive(cts)
						} else {
							back, err = eval.Repack(cts)
						}
						if err != nil || back == nil {
							return "err"
						}
						return "ok"
					})
					if res != "ok" {
						// Repack refuses index sets with an odd class without even class: known, separate finding key
						c.Count("repack-after-extract:" + res)
						continue
					}
					c04ProbeNoiseAt(c, ps, name, sargs, back, sk, want, nil, b2, key(name))
				}
				// ExtractNaive: only the constant coefficient is specified; then Repack restores the selection
				{
					var cts map[int]*rlwe.Ciphertext
					res := Try(func() string {
						var err error
						if cts, err = eval.ExtractNaive(mk(), idx); err != nil {
							return "err"
						}
						return "ok"
					})
					if res != "ok" {
						c.Probe("extract_completes", "naive "+sargs, key("extractnaive-"+res), "ExtractNaive "+res)
					} else if check("extractnaive_decrypts", cts, false) {
						var back *rlwe.Ciphertext
						if r := Try(func() string {
							var err error
							if back, err = eval.Repack(cts); err != nil || back == nil {
								return "err"
							}
							return "ok"
						}); r == "ok" {
							c04ProbeNoiseAt(c, ps, "repack_extractnaive_roundtrip", sargs, back, sk, want, nil, b2, key("repack_extractnaive_roundtrip"))
						}
					}
				}
			}
			// Expand at the large ring for EVERY logGap: outputs exactly at the multiples of 2^logGap, each c[i]*X^0
			for g := 0; g <= logN && !vac; g++ {
				if !c.Thorough() && g > 3 && c.rng.Intn(2) == 0 {
					continue
				}
				m := c04SmallVec(c, N, 1<<30) // messages far above the noise bound: a misplaced coefficient is visible
				ntt := c.rng.Intn(2) == 0
				ct := ps.mkCt(sk, m, c04SmallVec(c, N, 3), [][][]uint64{ps.randRows(c, lvl)}, ntt)
				var cts map[int]*rlwe.Ciphertext
				res := Try(func() string {
					var err error
					if cts, err = eval.Expand(ct, g); err != nil {
						return "err"
					}
					return "ok"
				})
				eargs := fmt.Sprintf("%s logGap=%d ntt=%s", args, g, c04B2s(ntt))
				if res != "ok" {
					c.Probe("expand_completes", eargs, "C04-ringexpand-"+res, "Expand "+res)
					continue
				}
				var keys []int
				for k, v := range cts {
					if v != nil {
						keys = append(keys, k)
					}
				}
				sort.Ints(keys)
				// tie: the index set Expand returns (model: KS.expandKeys, the loop's index arithmetic)
				c.Emit(fmt.Sprintf("expandidx %d %d", logN, g), IVec(keys))
				c.Count("expandidx")
				detail := ""
				worst := new(big.Int)
				for _, k := range keys {
					want := make([]int64, N)
					if k >= 0 && k < N {
						want[0] = m[k]
					}
					n0 := ps.noiseOf(cts[k], sk, want)
					if n0.Cmp(worst) > 0 {
						worst.Set(n0)
					}
				}
				if worst.Cmp(b) > 0 {
					detail = fmt.Sprintf("noise=%s(bits=%d) bound=%s(bits=%d)", worst, worst.BitLen(), b, b.BitLen())
				}
				k2 := "C04-ringexpand_decrypts"
				if class != "" {
					k2 = class
				}
				c.Probe("ringexpand_decrypts", eargs, k2, detail)
			}
		}

		// ---- Pack: plaintext-level definition. Inputs m_k (k in keys, keys < 2^L, L = inputLogGap) carry data
		// at the multiples of 2^L; out = sum_k X^k * keep_{2^L}(m_k). With zeroGarbageSlots = false and keys that
		// are multiples of 2^g (g = 2-adic valuation of the smallest gap) only the positions multiple of 2^g are
		// specified (same formula), the others are garbage.
		for _, zero := range []bool{true, false} {
			for rep := 0; rep < c.Scale(2, 4); rep++ {
				L := 1 + c.rng.Intn(logN)
				g := 0
				if !zero {
					if L < 2 {
						L = 2
					}
					g = c.rng.Intn(L) // 0 .. L-1 : even smallest gap as soon as g >= 1
					if rep == 0 {
						g = 1 + c.rng.Intn(L-1)
					}
				}
				// keys = 2^g * S, S a random subset of [0, 2^(L-g)) containing two consecutive integers
				span := 1 << (L - g)
				S := map[int]bool{}
				if zero && c.rng.Intn(2) == 0 {
					// arbitrary subset, possibly a single key, odd or even gaps
					n := 1 + c.rng.Intn(span)
					for len(S) < n {
						S[c.rng.Intn(span)] = true
					}
				} else {
					a := c.rng.Intn(span - 1)
					S[a], S[a+1] = true, true
					for x := 0; x < span; x++ {
						if c.rng.Intn(3) == 0 {
							S[x] = true
						}
					}
				}
				ntt := c.rng.Intn(2) == 0
				cts := map[int]*rlwe.Ciphertext{}
				ms := map[int][]int64{}
				var keyList []int
				for x := range S {
					k := x << g
					keyList = append(keyList, k)
					ms[k] = c04SmallVec(c, ps.N(), 1<<17)
					cts[k] = ps.mkCt(sk, ms[k], c04SmallVec(c, ps.N(), 3), [][][]uint64{ps.randRows(c, lvl)}, ntt)
				}
				// zeroGarbageSlots = false with an OFFSET index list (e.g. {1, 3}): no power of two divides every
				// index, nothing may be discarded: the result is specified on every position
				offset := 0
				if !zero && g >= 1 && rep == 1 {
					offset = 1 + c.rng.Intn((1<<g)-1)
					cts2 := map[int]*rlwe.Ciphertext{}
					ms2 := map[int][]int64{}
					for i, k := range keyList {
						keyList[i] = k + offset
						cts2[k+offset], ms2[k+offset] = cts[k], ms[k]
					}
					or := 0
					for _, k := range keyList {
						or |= k
					}
					cts, ms, g = cts2, ms2, bits.TrailingZeros(uint(or)) // only the multiples of 2^v2(all keys) are specified
					c.Count("pack:offset-keys")
				}
				sort.Ints(keyList)
				pargs := fmt.Sprintf("%s L=%d zero=%s keys=%s ntt=%s", args, L, c04B2s(zero), IVec(keyList), c04B2s(ntt))
				var out *rlwe.Ciphertext
				res := Try(func() string {
					var err error
					if out, err = eval.Pack(cts, L, zero); err != nil {
						return "err"
					}
					return "ok"
				})
				c.Count(fmt.Sprintf("pack:zero%s:g%d:ntt%s", c04B2s(zero), g, c04B2s(ntt)))
				if res != "ok" || out == nil {
					k := "C04-pack-" + res
					if offset != 0 {
						k = "C04-ringpacking-offset-index-set"
					}
					c.Probe("pack_completes", pargs, k, "Pack "+res+" (nil result or error)")
					continue
				}
				want := make([]int64, ps.N())
				var pos []int
				for p := 0; p < ps.N(); p++ {
					if !zero && p%(1<<g) != 0 {
						continue
					}
					pos = append(pos, p)
					k := p % (1 << L)
					if mk, ok := ms[k]; ok {
						want[p] = mk[p-k]
					}
				}
				b := new(big.Int).Mul(new(big.Int).Add(bound, big.NewInt(8)), big.NewInt(int64(4*ps.N())))
				pclass := class
				if offset != 0 && pclass == "" {
					pclass = "C04-ringpacking-offset-index-set"
				}
				c04ProbeNoiseAt(c, ps, "pack_decrypts", pargs, out, sk, want, pos, b, pclass)
			}
		}

		// ---- Repack: P(X) = sum_i ct_i[0] * X^i from ciphertexts of the smallest ring (non-constant coefficients
		// of the inputs are arbitrary: Repack zeroes them)
		for rep := 0; rep < c.Scale(3, 6); rep++ {
			gap := []int{1, 2, 3, 4, 6, 8}[c.rng.Intn(6)]
			ntt := c.rng.Intn(2) == 0
			cts := map[int]*rlwe.Ciphertext{}
			want := make([]int64, ps.N())
			sparse := c.rng.Intn(3) == 0 // a few indices only (possibly a single one, possibly all odd)
			for i := c.rng.Intn(gap); i < ps.N(); i += gap {
				if (c.rng.Intn(4) == 0 && len(cts) > 0) || (sparse && len(cts) >= 1+rep) {
					continue
				}
				m := c04SmallVec(c, small.N(), 1<<17)
				cts[i] = small.mkCt(ski[minLogN], m, c04SmallVec(c, small.N(), 3), [][][]uint64{small.randRows(c, lvl)}, ntt)
				want[i] = m[0]
			}
			pargs := fmt.Sprintf("%s gap=%d n=%d ntt=%s", args, gap, len(cts), c04B2s(ntt))
			var out *rlwe.Ciphertext
			res := Try(func() string {
				var err error
				if out, err = eval.Repack(cts); err != nil {
					return "err"
				}
				return "ok"
			})
			c.Count(fmt.Sprintf("repack:gap%d", gap))
			// root-cause tag: some node of the merge tree has ciphertexts in its odd class only
			rclass := class
			{
				nf := 1 << (logN - minLogN)
				R := map[int]bool{}
				for i := range cts {
					R[i&(nf-1)] = true
				}
				for t := nf / 2; t >= 1; t /= 2 {
					for j := 0; j < t; j++ {
						if R[j+t] && !R[j] {
							rclass = "C04-repack-odd-class-without-even-class"
						}
						if R[j+t] {
							R[j] = true
						}
					}
				}
			}
			if res != "ok" || out == nil {
				key := "C04-repack-" + res
				if rclass != "" {
					key = rclass
				}
				c.Probe("repack_completes", pargs, key, "Repack "+res)
				continue
			}
			b := new(big.Int).Mul(new(big.Int).Add(bound, big.NewInt(8)), big.NewInt(int64(8*ps.N())))
			c04ProbeNoiseAt(c, ps, "repack_decrypts", pargs, out, sk, want, nil, b, rclass)
		}
	}
}

// noiseConst returns |Dec(ct)[0] - want| (centred).
func (ps *c04PS) noiseConst(ct *rlwe.Ciphertext, sk *rlwe.SecretKey, want int64) *big.Int {
	dec := rlwe.NewDecryptor(ps.params, sk)
	pt := rlwe.NewPlaintext(ps.params, ct.Level())
	dec.Decrypt(ct, pt)
	lvl := ct.Level()
	r := ps.params.RingQ().AtLevel(lvl)
	p := r.NewPoly()
	p.CopyLvl(lvl, pt.Value)
	if pt.IsNTT {
		r.INTT(p, p)
	}
	coeffs := make([]*big.Int, ps.N())
	for i := range coeffs {
		coeffs[i] = new(big.Int)
	}
	r.PolyToBigintCentered(p, 1, coeffs)
	d := new(big.Int).Sub(coeffs[0], big.NewInt(want))
	return d.Abs(d)
}

// c04ProbeNoiseAt: decrypt-and-compare on the listed coefficient positions only (nil = all).
func c04ProbeNoiseAt(c *Ctx, ps *c04PS, name, args string, out *rlwe.Ciphertext, sk *rlwe.SecretKey, want []int64, pos []int, bound *big.Int, class string) {
	lvl := out.Level()
	half := c04ProdBig(ps.Q[:lvl+1])
	half.Rsh(half, 1)
	if new(big.Int).Add(bound, big.NewInt(1<<18)).Cmp(half) >= 0 {
		c.Count("probe-vacuous:" + name)
		return
	}
	dec := rlwe.NewDecryptor(ps.params, sk)
	pt := rlwe.NewPlaintext(ps.params, lvl)
	dec.Decrypt(out, pt)
	r := ps.params.RingQ().AtLevel(lvl)
	p := r.NewPoly()
	p.CopyLvl(lvl, pt.Value)
	if pt.IsNTT {
		r.INTT(p, p)
	}
	coeffs := make([]*big.Int, ps.N())
	for i := range coeffs {
		coeffs[i] = new(big.Int)
	}
	r.PolyToBigintCentered(p, 1, coeffs)
	if pos == nil {
		for i := 0; i < ps.N(); i++ {
			pos = append(pos, i)
		}
	}
	worst := new(big.Int)
	at := -1
	for _, i := range pos {
		d := new(big.Int).Sub(coeffs[i], big.NewInt(want[i]))
		d.Abs(d)
		if d.Cmp(worst) > 0 {
			worst.Set(d)
			at = i
		}
	}
	detail := ""
	if worst.Cmp(bound) > 0 {
		detail = fmt.Sprintf("noise=%s(bits=%d) at coeff %d bound=%s(bits=%d)", worst, worst.BitLen(), at, bound, bound.BitLen())
	}
	key := "C04-" + name
	if class != "" {
		key = class
	}
	c.Probe(name, args, key, detail)
}

// c04PackEval: the ring-packing probes run through the evaluator itself, a ShallowCopy of it, and a copy of a copy
// (rotating with the round), since users obtain evaluators that way for concurrent use.
func c04PackEval(e *rlwe.RingPackingEvaluator, round int) *rlwe.RingPackingEvaluator {
	switch round % 3 {
	case 1:
		return e.ShallowCopy()
	case 2:
		return e.ShallowCopy().ShallowCopy()
	}
	return e
}

func c04PackEvalName(round int) string {
	return []string{"original", "ShallowCopy", "ShallowCopy.ShallowCopy"}[round%3]
}
