package main

// C04 — RLWE ring packing (Split / Merge / Extract) on the real code: decrypt-and-compare probes only
// (no model): the key switches inside are ApplyEvaluationKey / Automorphism, tied elsewhere.

import (
	"fmt"
	"math/big"
	"sort"

	"github.com/tuneinsight/lattigo/v6/core/rlwe"
)

func c04Packing(c *Ctx) {
	rounds := c.Scale(3, 24)
	for r := 0; r < rounds; r++ {
		logN := 5
		if c.rng.Intn(2) == 0 {
			logN = 6
		}
		minLogN := logN - 1 - c.rng.Intn(2)
		if minLogN < 4 {
			minLogN = 4
		}
		nQ := 1 + c.rng.Intn(3)
		nP := 1 + c.rng.Intn(2)
		var ps *c04PS
		for try := 0; try < 20 && ps == nil; try++ {
			bq := make([]int, nQ)
			for i := range bq {
				bq[i] = 40 + c.rng.Intn(16)
			}
			bp := make([]int, nP)
			for i := range bp {
				bp[i] = 40 + c.rng.Intn(16)
			}
			Q, P, ok := c04Primes(logN, bq, bp)
			if !ok {
				continue
			}
			if p, err := c04NewPS(logN, Q, P, true); err == nil {
				ps = p
			}
		}
		if ps == nil {
			continue
		}
		cfg := c04KeyCfg{lq: nQ - 1, lp: nP - 1}
		if nP == 1 && c.rng.Intn(2) == 0 {
			cfg.w = 10 + c.rng.Intn(21)
		}
		args := fmt.Sprintf("%s minLogN=%d w=%d", ps.hdr(), minLogN, cfg.w)
		c.Count(fmt.Sprintf("packing:logN%d:min%d:Q%d:P%d:w%d", logN, minLogN, nQ, nP, cfg.w))

		sk := rlwe.NewKeyGenerator(ps.params).GenSecretKeyNew()
		rpk := &rlwe.RingPackingEvaluationKey{}
		var ski map[int]*rlwe.SecretKey
		var eval *rlwe.RingPackingEvaluator
		setup := Try(func() string {
			var err error
			if ski, err = rpk.GenRingSwitchingKeys(ps.params, sk, minLogN, cfg.evkParams()); err != nil {
				return "err"
			}
			rpk.GenRepackEvaluationKeys(rpk.Parameters[minLogN], ski[minLogN], cfg.evkParams())
			rpk.GenRepackEvaluationKeys(rpk.Parameters[logN], ski[logN], cfg.evkParams())
			rpk.GenExtractEvaluationKeys(rpk.Parameters[minLogN], ski[minLogN], cfg.evkParams())
			eval = rlwe.NewRingPackingEvaluator(rpk)
			return "ok"
		})
		if setup != "ok" {
			c.Probe("packing_setup", args, "C04-packing-setup-"+setup, "setup "+setup)
			continue
		}
		half := &c04PS{params: *rpk.Parameters[logN-1].GetRLWEParameters(), logN: logN - 1, Q: ps.Q, P: ps.P}
		small := &c04PS{params: *rpk.Parameters[minLogN].GetRLWEParameters(), logN: minLogN, Q: ps.Q, P: ps.P}
		lvl := cfg.lq
		shape := ps.params.BaseTwoDecompositionVectorSize(cfg.lq, cfg.lp, cfg.w)
		if cfg.lp > 0 {
			shape = shape[:ps.params.BaseRNSDecompositionVectorSize(cfg.lq, cfg.lp)]
		}
		bound := ps.ksNoiseBound(lvl, cfg.lp, cfg.w, shape)
		class := c04Classify(ps, cfg, lvl, shape)

		// ---- Split: ctN[X] = even[Y] + X*odd[Y]
		{
			m := c04SmallVec(c, ps.N(), 1<<17)
			e := c04SmallVec(c, ps.N(), 3)
			ct := ps.mkCt(sk, m, e, [][][]uint64{ps.randRows(c, lvl)}, true)
			var ev, od *rlwe.Ciphertext
			res := Try(func() string {
				var err error
				if ev, od, err = eval.SplitNew(ct); err != nil {
					return "err"
				}
				return "ok"
			})
			if res != "ok" {
				c.Probe("split_completes", args, "C04-split-"+res, "Split "+res)
			} else {
				me := make([]int64, half.N())
				mo := make([]int64, half.N())
				for j := range me {
					me[j], mo[j] = m[2*j], m[2*j+1]
				}
				c04ProbeNoise(c, half, "split_even_decrypts", args, ev, ski[logN-1], me, bound, class)
				c04ProbeNoise(c, half, "split_odd_decrypts", args, od, ski[logN-1], mo, bound, class)
			}
		}
		// ---- Merge
		{
			me := c04SmallVec(c, half.N(), 1<<17)
			mo := c04SmallVec(c, half.N(), 1<<17)
			cte := half.mkCt(ski[logN-1], me, c04SmallVec(c, half.N(), 3), [][][]uint64{half.randRows(c, lvl)}, true)
			cto := half.mkCt(ski[logN-1], mo, c04SmallVec(c, half.N(), 3), [][][]uint64{half.randRows(c, lvl)}, true)
			var ctN *rlwe.Ciphertext
			res := Try(func() string {
				var err error
				if ctN, err = eval.MergeNew(cte, cto); err != nil {
					return "err"
				}
				return "ok"
			})
			if res != "ok" {
				c.Probe("merge_completes", args, "C04-merge-"+res, "Merge "+res)
			} else {
				m := make([]int64, ps.N())
				for j := range me {
					m[2*j], m[2*j+1] = me[j], mo[j]
				}
				b2 := new(big.Int).Add(bound, big.NewInt(3)) // two input noises
				c04ProbeNoise(c, ps, "merge_decrypts", args, ctN, sk, m, b2, class)
			}
		}
		// ---- Extract (non naive): constant coefficient of ciphertext i = coefficient i of the input
		{
			m := c04SmallVec(c, ps.N(), 1<<17)
			e := c04SmallVec(c, ps.N(), 3)
			ct := ps.mkCt(sk, m, e, [][][]uint64{ps.randRows(c, lvl)}, true)
			gap := 1 + c.rng.Intn(5)
			idx := map[int]bool{}
			for i := 0; i*gap < ps.N(); i++ {
				idx[i*gap] = true
			}
			var cts map[int]*rlwe.Ciphertext
			res := Try(func() string {
				var err error
				if cts, err = eval.Extract(ct, idx); err != nil {
					return "err"
				}
				return "ok"
			})
			if res != "ok" {
				c.Probe("extract_completes", args, "C04-extract-"+res, "Extract "+res)
			} else {
				// generous bound: (logN - minLogN) ring switches + logMin automorphisms, each noise doubled along the
				// expansion tree, times N for the trace normalisation
				nks := int64(2*logN + 4)
				b := new(big.Int).Mul(bound, big.NewInt(nks*int64(ps.N())*int64(ps.N())))
				detail := ""
				if len(cts) != len(idx) {
					detail = fmt.Sprintf("got %d ciphertexts for %d indices", len(cts), len(idx))
				}
				worst := new(big.Int)
				halfQ := c04ProdBig(ps.Q[:lvl+1])
				halfQ.Rsh(halfQ, 1)
				vac := new(big.Int).Add(b, big.NewInt(1<<18)).Cmp(halfQ) >= 0
				if !vac && detail == "" {
					for i := range idx {
						cti, ok := cts[i]
						if !ok {
							detail = fmt.Sprintf("index %d missing", i)
							break
						}
						want := make([]int64, small.N())
						want[0] = m[i]
						// only the constant coefficient is specified: compare it alone
						n0 := small.noiseConst(cti, ski[minLogN], want[0])
						if n0.Cmp(worst) > 0 {
							worst.Set(n0)
						}
					}
					if detail == "" && worst.Cmp(b) > 0 {
						detail = fmt.Sprintf("noise=%s(bits=%d) bound=%s(bits=%d)", worst, worst.BitLen(), b, b.BitLen())
					}
				}
				if vac {
					c.Count("probe-vacuous:extract_decrypts")
				} else {
					key := "C04-extract_decrypts"
					if class != "" {
						key = class
					}
					c.Probe("extract_decrypts", fmt.Sprintf("%s gap=%d", args, gap), key, detail)
				}
			}
		}

		// ---- Pack: plaintext-level definition. Inputs m_k (k in keys, keys < 2^L, L = inputLogGap) carry data
		// at the multiples of 2^L; out = sum_k X^k * keep_{2^L}(m_k). With zeroGarbageSlots = false and keys that
		// are multiples of 2^g (g = 2-adic valuation of the smallest gap) only the positions multiple of 2^g are
		// specified (same formula), the others are garbage.
		for _, zero := range []bool{true, false} {
			for rep := 0; rep < c.Scale(2, 4); rep++ {
				L := 1 + c.rng.Intn(logN)
				g := 0
				if !zero {
					if L < 2 {
						L = 2
					}
					g = c.rng.Intn(L) // 0 .. L-1 : even smallest gap as soon as g >= 1
					if rep == 0 {
						g = 1 + c.rng.Intn(L-1)
					}
				}
				// keys = 2^g * S, S a random subset of [0, 2^(L-g)) containing two consecutive integers
				span := 1 << (L - g)
				S := map[int]bool{}
				if zero && c.rng.Intn(2) == 0 {
					// arbitrary subset, possibly a single key, odd or even gaps
					n := 1 + c.rng.Intn(span)
					for len(S) < n {
						S[c.rng.Intn(span)] = true
					}
				} else {
					a := c.rng.Intn(span - 1)
					S[a], S[a+1] = true, true
					for x := 0; x < span; x++ {
						if c.rng.Intn(3) == 0 {
							S[x] = true
						}
					}
				}
				ntt := c.rng.Intn(2) == 0
				cts := map[int]*rlwe.Ciphertext{}
				ms := map[int][]int64{}
				var keyList []int
				for x := range S {
					k := x << g
					keyList = append(keyList, k)
					ms[k] = c04SmallVec(c, ps.N(), 1<<17)
					cts[k] = ps.mkCt(sk, ms[k], c04SmallVec(c, ps.N(), 3), [][][]uint64{ps.randRows(c, lvl)}, ntt)
				}
				sort.Ints(keyList)
				pargs := fmt.Sprintf("%s L=%d zero=%s keys=%s ntt=%s", args, L, c04B2s(zero), IVec(keyList), c04B2s(ntt))
				var out *rlwe.Ciphertext
				res := Try(func() string {
					var err error
					if out, err = eval.Pack(cts, L, zero); err != nil {
						return "err"
					}
					return "ok"
				})
				c.Count(fmt.Sprintf("pack:zero%s:g%d:ntt%s", c04B2s(zero), g, c04B2s(ntt)))
				if res != "ok" || out == nil {
					c.Probe("pack_completes", pargs, "C04-pack-"+res, "Pack "+res)
					continue
				}
				want := make([]int64, ps.N())
				var pos []int
				for p := 0; p < ps.N(); p++ {
					if !zero && p%(1<<g) != 0 {
						continue
					}
					pos = append(pos, p)
					k := p % (1 << L)
					if mk, ok := ms[k]; ok {
						want[p] = mk[p-k]
					}
				}
				b := new(big.Int).Mul(new(big.Int).Add(bound, big.NewInt(8)), big.NewInt(int64(4*ps.N())))
				c04ProbeNoiseAt(c, ps, "pack_decrypts", pargs, out, sk, want, pos, b, class)
			}
		}

		// ---- Repack: P(X) = sum_i ct_i[0] * X^i from ciphertexts of the smallest ring (non-constant coefficients
		// of the inputs are arbitrary: Repack zeroes them)
		for rep := 0; rep < c.Scale(3, 6); rep++ {
			gap := []int{1, 2, 3, 4, 6, 8}[c.rng.Intn(6)]
			ntt := c.rng.Intn(2) == 0
			cts := map[int]*rlwe.Ciphertext{}
			want := make([]int64, ps.N())
			sparse := c.rng.Intn(3) == 0 // a few indices only (possibly a single one, possibly all odd)
			for i := c.rng.Intn(gap); i < ps.N(); i += gap {
				if (c.rng.Intn(4) == 0 && len(cts) > 0) || (sparse && len(cts) >= 1+rep) {
					continue
				}
				m := c04SmallVec(c, small.N(), 1<<17)
				cts[i] = small.mkCt(ski[minLogN], m, c04SmallVec(c, small.N(), 3), [][][]uint64{small.randRows(c, lvl)}, ntt)
				want[i] = m[0]
			}
			pargs := fmt.Sprintf("%s gap=%d n=%d ntt=%s", args, gap, len(cts), c04B2s(ntt))
			var out *rlwe.Ciphertext
			res := Try(func() string {
				var err error
				if out, err = eval.Repack(cts); err != nil {
					return "err"
				}
				return "ok"
			})
			c.Count(fmt.Sprintf("repack:gap%d", gap))
			// root-cause tag: some node of the merge tree has ciphertexts in its odd class only
			rclass := class
			{
				nf := 1 << (logN - minLogN)
				R := map[int]bool{}
				for i := range cts {
					R[i&(nf-1)] = true
				}
				for t := nf / 2; t >= 1; t /= 2 {
					for j := 0; j < t; j++ {
						if R[j+t] && !R[j] {
							rclass = "C04-repack-odd-class-without-even-class"
						}
						if R[j+t] {
							R[j] = true
						}
					}
				}
			}
			if res != "ok" || out == nil {
				key := "C04-repack-" + res
				if rclass != "" {
					key = rclass
				}
				c.Probe("repack_completes", pargs, key, "Repack "+res)
				continue
			}
			b := new(big.Int).Mul(new(big.Int).Add(bound, big.NewInt(8)), big.NewInt(int64(8*ps.N())))
			c04ProbeNoiseAt(c, ps, "repack_decrypts", pargs, out, sk, want, nil, b, rclass)
		}
	}
}

// noiseConst returns |Dec(ct)[0] - want| (centred).
func (ps *c04PS) noiseConst(ct *rlwe.Ciphertext, sk *rlwe.SecretKey, want int64) *big.Int {
	dec := rlwe.NewDecryptor(ps.params, sk)
	pt := rlwe.NewPlaintext(ps.params, ct.Level())
	dec.Decrypt(ct, pt)
	lvl := ct.Level()
	r := ps.params.RingQ().AtLevel(lvl)
	p := r.NewPoly()
	p.CopyLvl(lvl, pt.Value)
	if pt.IsNTT {
		r.INTT(p, p)
	}
	coeffs := make([]*big.Int, ps.N())
	for i := range coeffs {
		coeffs[i] = new(big.Int)
	}
	r.PolyToBigintCentered(p, 1, coeffs)
	d := new(big.Int).Sub(coeffs[0], big.NewInt(want))
	return d.Abs(d)
}

// c04ProbeNoiseAt: decrypt-and-compare on the listed coefficient positions only (nil = all).
func c04ProbeNoiseAt(c *Ctx, ps *c04PS, name, args string, out *rlwe.Ciphertext, sk *rlwe.SecretKey, want []int64, pos []int, bound *big.Int, class string) {
	lvl := out.Level()
	half := c04ProdBig(ps.Q[:lvl+1])
	half.Rsh(half, 1)
	if new(big.Int).Add(bound, big.NewInt(1<<18)).Cmp(half) >= 0 {
		c.Count("probe-vacuous:" + name)
		return
	}
	dec := rlwe.NewDecryptor(ps.params, sk)
	pt := rlwe.NewPlaintext(ps.params, lvl)
	dec.Decrypt(out, pt)
	r := ps.params.RingQ().AtLevel(lvl)
	p := r.NewPoly()
	p.CopyLvl(lvl, pt.Value)
	if pt.IsNTT {
		r.INTT(p, p)
	}
	coeffs := make([]*big.Int, ps.N())
	for i := range coeffs {
		coeffs[i] = new(big.Int)
	}
	r.PolyToBigintCentered(p, 1, coeffs)
	if pos == nil {
		for i := 0; i < ps.N(); i++ {
			pos = append(pos, i)
		}
	}
	worst := new(big.Int)
	at := -1
	for _, i := range pos {
		d := new(big.Int).Sub(coeffs[i], big.NewInt(want[i]))
		d.Abs(d)
		if d.Cmp(worst) > 0 {
			worst.Set(d)
			at = i
		}
	}
	detail := ""
	if worst.Cmp(bound) > 0 {
		detail = fmt.Sprintf("noise=%s(bits=%d) at coeff %d bound=%s(bits=%d)", worst, worst.BitLen(), at, bound, bound.BitLen())
	}
	key := "C04-" + name
	if class != "" {
		key = class
	}
	c.Probe(name, args, key, detail)
}
