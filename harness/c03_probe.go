package main

// C03 probes: the property's predicates evaluated on the real code (real Encryptor, real Decryptor,
// reconstruction of the centred integer noise with math/big).
//
//   dec_enc_noise_upper   ‖value(Decrypt(Encrypt(pt))) − value(pt)‖∞ ≤ bound implied by Xe, Xs
//   noise_nonzero         the fresh noise is not 0 and differs from the previous encryption's noise
//   noise_std             (statistical test) empirical std of the fresh noise within [1/3, 3]× nominal
//   declared_std          (statistical test) the same against the library's own NoiseFreshSK/PK
//   wrong_key_far         decrypting with an independent key lands ≥ Q/8 away in some coefficient
//   metadata_eq           output metadata = plaintext metadata
//   pk_noise              pk0 + pk1·s = e with 0 < ‖e‖∞ ≤ B_e, over Q and over P
//   decrypt_reused_receiver  Decrypt into a caller-provided, re-used plaintext of any other level: level =
//                         min(ct.Level(), pt.Level()), value = m + e within the bound, metadata copied
//   component_noise_present  per component: c0 − u·pk0 − m and c1 − u·pk1 (times p0, up to the centred residue,
//                         when P is present) EQUAL the sampled e0, e1 of the twin replay, are non-zero and differ;
//                         for sk: c0 + c1·s − m = e ≠ 0
//   keygen_reused_receiver  (c03_keygen.go) keys generated into used receivers = keys generated into fresh ones
//   shallowcopy_keeps_prng  a ShallowCopy of a WithPRNG encryptor still produces compressed (degree-0)
//                         ciphertexts that the seed holder can expand and decrypt
//
// `value` is the polynomial a (Value, MetaData) pair denotes: coefficient domain, Montgomery factor
// removed when IsMontgomery is set (the library's reading of the flag: encoders apply MForm when the
// flag is set, rlwe/utils.go NTTSparseAndMontgomery, bgv/encoder.go).

import (
	"fmt"
	"math"
	"math/big"
	"reflect"

	"github.com/tuneinsight/lattigo/v6/core/rlwe"
	"github.com/tuneinsight/lattigo/v6/ring"
	"github.com/tuneinsight/lattigo/v6/utils/sampling"
)

type c03Acc struct {
	n          int
	sum, sumsq float64
}

func (a *c03Acc) add(v []*big.Int) {
	for _, x := range v {
		f, _ := new(big.Float).SetInt(x).Float64()
		a.n++
		a.sum += f
		a.sumsq += f * f
	}
}

func (a *c03Acc) std() float64 {
	if a.n == 0 {
		return 0
	}
	m := a.sum / float64(a.n)
	return math.Sqrt(math.Max(0, a.sumsq/float64(a.n)-m*m))
}

type c03Stats struct {
	acc  map[string]*c03Acc // path -> accumulator
	last map[string][]*big.Int
}

func newC03Stats() *c03Stats {
	return &c03Stats{acc: map[string]*c03Acc{}, last: map[string][]*big.Int{}}
}

// c03Centered: centred integer coefficients of the polynomial with canonical rows `rows` mod qs.
func c03Centered(qs []uint64, rows [][]uint64) []*big.Int {
	Q := big.NewInt(1)
	for _, q := range qs {
		Q.Mul(Q, new(big.Int).SetUint64(q))
	}
	half := new(big.Int).Rsh(Q, 1)
	cs := make([]*big.Int, len(qs))
	for i, q := range qs {
		qi := new(big.Int).SetUint64(q)
		Qi := new(big.Int).Quo(Q, qi)
		inv := new(big.Int).ModInverse(new(big.Int).Mod(Qi, qi), qi)
		cs[i] = Qi.Mul(Qi, inv)
	}
	n := len(rows[0])
	out := make([]*big.Int, n)
	for j := 0; j < n; j++ {
		x := new(big.Int)
		for i := range qs {
			x.Add(x, new(big.Int).Mul(cs[i], new(big.Int).SetUint64(rows[i][j])))
		}
		x.Mod(x, Q)
		if x.Cmp(half) > 0 {
			x.Sub(x, Q)
		}
		out[j] = x
	}
	return out
}

func c03Inf(v []*big.Int) *big.Int {
	m := new(big.Int)
	for _, x := range v {
		a := new(big.Int).Abs(x)
		if a.Cmp(m) > 0 {
			m = a
		}
	}
	return m
}

func c03SubRows(qs []uint64, a, b [][]uint64) [][]uint64 {
	out := make([][]uint64, len(qs))
	for i, q := range qs {
		out[i] = make([]uint64, len(a[i]))
		for j := range a[i] {
			out[i][j] = (a[i][j] + q - b[i][j]%q) % q
		}
	}
	return out
}

func c03EqVec(a, b []*big.Int) bool {
	if len(a) != len(b) {
		return false
	}
	for i := range a {
		if a[i].Cmp(b[i]) != 0 {
			return false
		}
	}
	return true
}

// c03Bound: the bound on ‖phase − m‖∞ implied by the declared distributions (derivation in
// Props/C03.lean: noise_upper_*).  Generous, finite, far below Q/8 for every generated set.
func c03Bound(s *c03Set, key string) float64 {
	switch {
	case key == "sk":
		return s.Be
	case s.nP == 0:
		// u·e_pk + e0 + e1·s
		return s.Be * (s.kappa*s.Hs + 1 + s.kappa*s.Hs)
	default:
		// (E − δ0 − δ1·s)/p0, |δ| ≤ p0/2
		p0 := float64(s.params.P()[0])
		E := s.Be * (s.kappa*s.Hs + 1 + s.kappa*s.Hs)
		return math.Ceil(E/p0) + 1 + (1+s.kappa*s.Hs)/2 + 1
	}
}

func c03Path(s *c03Set, key string) string {
	if key == "pk" {
		if s.nP > 0 {
			return "pkP"
		}
		return "pkNoP"
	}
	return key
}

// c03ProbeEncryption evaluates the predicates on one successful encryption.
func c03ProbeEncryption(c *Ctx, s *c03Set, v *c03Variant, api string, deg, level int, junk bool,
	ct *rlwe.Ciphertext, ptIn *rlwe.Plaintext, tA, tE0, tU, tE1 ring.Poly) {
	params := s.params
	rg := params.RingQ().AtLevel(level)
	qs := params.Q()[:level+1]
	path := c03Path(s, v.key)
	isNTT, isMont := ct.IsNTT, ct.IsMontgomery
	args := fmt.Sprintf("%s key=%s how=%s api=%s deg=%d level=%d ntt=%d mont=%d reused=%d seed=%d", s.hdr, path, v.how, api, deg, level,
		c03B2i(isNTT), c03B2i(isMont), c03B2i(junk), c.Seed)

	// a degree-0 target of an sk-encryptor is a compressed ciphertext: the holder of the PRNG expands c1
	ctDec := ct
	if deg == 0 {
		ctDec = rlwe.NewCiphertext(params, 1, level)
		*ctDec.MetaData = *ct.MetaData
		for i := 0; i <= level; i++ {
			copy(ctDec.Value[0].Coeffs[i], ct.Value[0].Coeffs[i])
			copy(ctDec.Value[1].Coeffs[i], tA.Coeffs[i])
		}
	}
	zero := make([][]uint64, level+1)
	for i := range zero {
		zero[i] = make([]uint64, s.N)
	}
	want := zero
	wantRaw := zero
	if ptIn != nil {
		want = Canon(rg, ptIn.Value, ptIn.IsNTT, ptIn.IsMontgomery)
		wantRaw = Canon(rg, ptIn.Value, ptIn.IsNTT, false)
	}
	ptOut := s.dec.DecryptNew(ctDec)
	got := Canon(rg, ptOut.Value, ptOut.IsNTT, ptOut.IsMontgomery)
	gotRaw := Canon(rg, ptOut.Value, ptOut.IsNTT, false)
	noise := c03Centered(qs, c03SubRows(qs, got, want))
	noiseRaw := c03Centered(qs, c03SubRows(qs, gotRaw, wantRaw))
	inf := c03Inf(noise)
	bound := c03Bound(s, v.key)
	bnd := c03BigBound(bound)

	// finding keys of the configurations in which the code misbehaved before the fixes C03-1 … C03-5
	key := "C03-noise-upper"
	switch {
	case deg >= 2 && junk:
		key = "C03-degree-ge2-stale"
	case v.key == "sk" && deg >= 2:
		key = "C03-sk-degree-ge2"
	case s.xeKind == "th" && !isNTT && path != "pkP":
		key = "C03-ternaryH-readandadd"
	case isMont && path != "pkP":
		key = "C03-montgomery-flag"
	}
	ok := inf.Cmp(bnd) <= 0
	detail := ""
	if !ok {
		detail = fmt.Sprintf("noise_inf=%s bound=%s raw_reading_inf=%s Qbits=%d", inf.String(), bnd.String(), c03Inf(noiseRaw).String(), c03Qbits(qs))
	}
	c.Probe("dec_enc_noise_upper", args, key, detail)

	// the recovered noise is ONE small integer polynomial: its limbs agree with each other
	{
		rows := c03SubRows(qs, got, want)
		checked, d := c03LimbReport(qs, rows, bnd)
		if !checked {
			c.Count("error_limbs_consistent:vacuous(2*bound >= Q at this level)")
		}
		if d == "" && v.key == "sk" {
			// and so is the error the encryptor sampled (twin draw), whatever the level's modulus
			if ch, d2 := c03LimbReport(qs, Canon(rg, tE0, false, false), c03BigBound(s.Be)); ch && d2 != "" {
				d = "sampled error: " + d2
			}
		}
		c.Probe("error_limbs_consistent", args, "C03-error-limbs-inconsistent", d)
	}

	// lower side: only meaningful where the upper side holds (otherwise the noise is garbage anyway), and
	// where the declared distribution itself makes an all-zero or repeated error vector negligible
	// (with N = 16 and Xe = Ternary{P: 1/3} an all-zero e has probability (2/3)^16 ≈ 1.5e-3; with P present
	// the noise is the rounding noise r0 + r1·s of std sqrt((1+h)/12), about 0.65 for h = 4).
	if ok && !c03DegeneracyNegligible(s, path) {
		c.Count("noise_nonzero:skipped(declared distributions degenerate at this N)")
	} else if ok {
		detail = ""
		if inf.Sign() == 0 {
			detail = "fresh noise is identically zero"
		} else if prev, has := s.st.last[path]; has && c03EqVec(prev, noise) {
			detail = "fresh noise equals the noise of the previous encryption"
		}
		c.Probe("noise_nonzero", args, "C03-noise-degenerate", detail)
		s.st.last[path] = noise
		a := s.st.acc[path]
		if a == nil {
			a = &c03Acc{}
			s.st.acc[path] = a
		}
		a.add(noise)
	}

	// every component carries its own error
	c03ProbeComponents(c, s, v, args, level, ct, ctDec, want, got, tE0, tU, tE1)

	// wrong key (meaningless if the declared secret distribution produced the same key twice, e.g. N = 16 and
	// Xs = Ternary{P: 0.25})
	uZero := v.key == "pk" && len(tU.Coeffs) > 0
	if uZero {
		for _, x := range tU.Coeffs[0] {
			if x != 0 {
				uZero = false
				break
			}
		}
	}
	if s.sk.Equal(s.sk2) {
		c.Count("wrong_key_far:skipped(independent key equals the key)")
	} else if uZero {
		// Xs = Ternary{P: 0.1} at N = 32 draws u = 0 with probability 3%: the ciphertext is then (m + e0', e1')
		c.Count("wrong_key_far:skipped(the declared Xs drew u = 0)")
	} else {
		pt2 := s.dec2.DecryptNew(ctDec)
		got2 := Canon(rg, pt2.Value, pt2.IsNTT, pt2.IsMontgomery)
		d := c03Inf(c03Centered(qs, c03SubRows(qs, got2, want)))
		Q := big.NewInt(1)
		for _, q := range qs {
			Q.Mul(Q, new(big.Int).SetUint64(q))
		}
		thr := new(big.Int).Rsh(Q, 3)
		detail = ""
		if d.Cmp(thr) < 0 {
			detail = fmt.Sprintf("distance=%s Q/8=%s", d.String(), thr.String())
		}
		c.Probe("wrong_key_far", args, "C03-wrong-key-near", detail)
	}

	// metadata
	if ptIn != nil {
		detail = ""
		if c03MetaStr(ptOut.MetaData) != c03MetaStr(ptIn.MetaData) || ptOut.IsNTT != ptIn.IsNTT || ptOut.IsMontgomery != ptIn.IsMontgomery ||
			!ptOut.MetaData.Equal(ptIn.MetaData) {
			detail = fmt.Sprintf("in=%s,%d,%d out=%s,%d,%d", c03MetaStr(ptIn.MetaData), c03B2i(ptIn.IsNTT), c03B2i(ptIn.IsMontgomery),
				c03MetaStr(ptOut.MetaData), c03B2i(ptOut.IsNTT), c03B2i(ptOut.IsMontgomery))
		}
		c.Probe("metadata_eq", args, "C03-metadata", detail)
	}
}

func c03Qbits(qs []uint64) int {
	Q := big.NewInt(1)
	for _, q := range qs {
		Q.Mul(Q, new(big.Int).SetUint64(q))
	}
	return Q.BitLen()
}

// c03ProbePublicKey: pk0 + pk1·s = e (Montgomery/NTT stripped), 0 < ‖e‖∞ ≤ B_e, over Q and over P.
func c03ProbePublicKey(c *Ctx, s *c03Set, pk *rlwe.PublicKey, eTwin ring.Poly) {
	params := s.params
	check := func(r *ring.Ring, pk0, pk1, sk ring.Poly, name string) {
		t := r.NewPoly()
		r.MulCoeffsMontgomery(pk1, sk, t) // pk1·s, Montgomery form kept
		r.Add(t, pk0, t)
		rows := Canon(r, t, true, true)
		e := c03Centered(Moduli(r), rows)
		inf := c03Inf(e)
		detail := ""
		if inf.Sign() == 0 {
			// (Xe = Ternary{P: 0.1} at N = 32 draws e = 0 with probability 3%: not the code's doing)
			if c03DegeneracyNegligible(s, "sk") {
				detail = "public key carries no error"
			} else {
				c.Count("pk_noise:zero error tolerated(declared Xe degenerate at this N)")
			}
		} else if inf.Cmp(c03BigBound(s.Be)) > 0 {
			detail = fmt.Sprintf("noise_inf=%s bound=%.0f", inf.String(), s.Be)
		}
		c.Probe("pk_noise", s.hdr+" part="+name, "C03-pk-noise", detail)
		if name == "Q" {
			a := s.st.acc["pkgen"]
			if a == nil {
				a = &c03Acc{}
				s.st.acc["pkgen"] = a
			}
			a.add(e)
		}
	}
	check(params.RingQ(), pk.Value[0].Q, pk.Value[1].Q, s.sk.Value.Q, "Q")
	if params.RingP() != nil {
		check(params.RingP(), pk.Value[0].P, pk.Value[1].P, s.sk.Value.P, "P")
	}
	// the error of the key is ONE small integer polynomial over Q·P: the Q limbs and the P limbs agree
	errRows := func(r *ring.Ring, pk0, pk1, sk ring.Poly) [][]uint64 {
		t := r.NewPoly()
		r.MulCoeffsMontgomery(pk1, sk, t)
		r.Add(t, pk0, t)
		return Canon(r, t, true, true)
	}
	qs := append([]uint64(nil), params.Q()...)
	rows := errRows(params.RingQ(), pk.Value[0].Q, pk.Value[1].Q, s.sk.Value.Q)
	if params.RingP() != nil {
		qs = append(qs, params.P()...)
		rows = append(rows, errRows(params.RingP(), pk.Value[0].P, pk.Value[1].P, s.sk.Value.P)...)
	}
	_, d := c03LimbReport(qs, rows, c03BigBound(s.Be))
	c.Probe("error_limbs_consistent", s.hdr+" what=pk part=QP "+fmt.Sprintf("seed=%d", c.Seed), "C03-error-limbs-inconsistent", d)
}

// c03ShallowCopyPRNG: seeded compressed encryption through a shallow copy.
// enc.WithPRNG(prng) makes c1 a function of the seed, so that a degree-0 ciphertext (c0 only) can be
// expanded by whoever holds the seed.  The property covers shallow copies of such encryptors.
func c03ShallowCopyPRNG(c *Ctx, s *c03Set) {
	params := s.params
	level := s.maxL
	seed := c.rng.Bytes(32)
	for _, viaCopy := range []bool{false, true} {
		pa, _ := sampling.NewKeyedPRNG(seed)
		enc := rlwe.NewEncryptor(params, s.sk).WithPRNG(pa)
		how := "WithPRNG"
		if viaCopy {
			enc = enc.ShallowCopy()
			how = "WithPRNG.ShallowCopy"
		}
		ct := rlwe.NewCiphertext(params, 0, level)
		ct.IsNTT = true
		if err := enc.EncryptZero(ct); err != nil {
			panic(err)
		}
		// the seed holder expands c1
		pb, _ := sampling.NewKeyedPRNG(seed)
		c1 := ring.NewUniformSampler(pb, params.RingQ()).AtLevel(level).ReadNew()
		full := rlwe.NewCiphertext(params, 1, level)
		full.IsNTT = true
		full.Value[0].Copy(ct.Value[0])
		full.Value[1].Copy(c1)
		pt := s.dec.DecryptNew(full)
		rg := params.RingQ().AtLevel(level)
		inf := c03Inf(c03Centered(params.Q()[:level+1], Canon(rg, pt.Value, true, false)))
		detail := ""
		if inf.Cmp(c03BigBound(s.Be)) > 0 {
			detail = fmt.Sprintf("expanded with the seed: noise_inf=%s bound=%.0f (the copy draws c1 from a fresh system PRNG)", inf.String(), s.Be)
		}
		c.Probe("shallowcopy_keeps_prng", s.hdr+" how="+how, "C03-shallowcopy-drops-prng", detail)
	}
}

// c03Statistics: labelled statistical tests on the accumulated fresh noise.
func c03Statistics(c *Ctx, s *c03Set) {
	params := s.params
	// top up every path with plain encryptions of zero at the top level until 4096 coefficients
	for _, key := range []string{"sk", "pk"} {
		path := c03Path(s, key)
		a := s.st.acc[path]
		if a == nil {
			a = &c03Acc{}
			s.st.acc[path] = a
		}
		var enc *rlwe.Encryptor
		if key == "sk" {
			enc = rlwe.NewEncryptor(params, s.sk)
		} else {
			enc = rlwe.NewEncryptor(params, s.pk)
		}
		for a.n < 4096 {
			ct := rlwe.NewCiphertext(params, 1, s.maxL)
			ct.IsNTT = true // keeps clear of the ReadAndAdd path (see C03-ternaryH-readandadd)
			if err := enc.EncryptZero(ct); err != nil {
				panic(err)
			}
			pt := s.dec.DecryptNew(ct)
			a.add(c03Centered(params.Q(), Canon(params.RingQ(), pt.Value, pt.IsNTT, false)))
		}
	}
	sigU2 := float64(s.N) * s.sigS * s.sigS * s.kappa // E‖u‖² (embedded): u is drawn afresh by every encryption
	// ‖s‖² of the secret that was ACTUALLY drawn for this set: s is fixed over the whole accumulator, and a
	// sparse ternary Xs at a small N gives s = 0 (or weight 1) with a probability that is far from negligible
	// (0.9^16 ≈ 18 % for T(P=0.1), N=16).  With s = 0 the pk-with-P noise r0 + r1·s is legitimately 0.
	sS2 := c03ActualSecretNorm2(s)
	nominal := map[string]float64{
		"sk":    s.sigE,
		"pkgen": s.sigE,
		"pkNoP": s.sigE * math.Sqrt(sigU2+sS2+1),
		"pkP":   math.Sqrt((1 + sS2) / 12),
	}
	if s.nP > 0 {
		// (u·e_pk + e0 + e1·s)/p0 on top of the rounding noise (matters for a wide Xe)
		p0 := float64(params.P()[0])
		nominal["pkP"] = math.Sqrt((1+sS2)/12 + s.sigE*s.sigE*(sigU2+sS2+1)/(p0*p0))
	}
	atypicalSecret := sS2 < sigU2/4 || sS2 > 4*sigU2
	declared := map[string]float64{
		"sk":    params.NoiseFreshSK(),
		"pkNoP": params.NoiseFreshPK(),
		"pkP":   params.NoiseFreshPK(),
	}
	for _, path := range []string{"sk", "pkNoP", "pkP", "pkgen"} {
		a := s.st.acc[path]
		if a == nil || a.n < 1024 {
			continue
		}
		// the accumulator mixes all levels: the statistic is meaningful only if the noise never wraps
		if k := map[string]string{"sk": "sk", "pkgen": "sk", "pkNoP": "pk", "pkP": "pk"}[path]; 2*c03Bound(s, k) >= float64(params.Q()[0]) {
			c.Count("noise_std:skipped(noise may wrap modulo q_0)")
			continue
		}
		if path == "pkP" && sS2 <= s.kappa {
			// s = 0: noise = round(e/P) = 0.  s = ±X^k: round((−a·s·u+e)/P) + round(a·u/P)·s = 0 as well, because
			// multiplying by a monomial commutes with coefficient-wise rounding; the rounding noise needs weight ≥ 2.
			c.Count("noise_std:skipped(the drawn secret has weight <= 1: pk-with-P noise is legitimately 0)")
			continue
		}
		emp := a.std()
		args := fmt.Sprintf("%s path=%s coeffs=%d seed=%d statistical-test", s.hdr, path, a.n, c.Seed)
		detail := ""
		if nom := nominal[path]; emp < nom/3 || emp > 3*nom {
			detail = fmt.Sprintf("empirical_std=%.4f nominal=%.4f (%s)", emp, nom, s.label)
		}
		c.Probe("noise_std", args, "C03-noise-std", detail)
		if decl, has := declared[path]; has {
			if path != "sk" && atypicalSecret {
				// NoiseFreshPK() is stated for the expected secret weight; the drawn one is more than 4x away
				c.Count("declared_std:skipped(drawn secret norm is atypical for Xs)")
				continue
			}
			// NoiseFreshSK is the declared std of Xe itself: band 3.  NoiseFreshPK is a heuristic, (h+1)·σ² with
			// h = XsHammingWeight(): it leaves out one of the two products (u·e_pk, e1·s) and, for a Gaussian
			// secret, uses E‖s‖₁ where E‖s‖² belongs; it underestimates by up to ≈ 3.3 (observed), band 4.
			band := 3.0
			if path != "sk" {
				band = 4.0
			}
			detail = ""
			if emp < decl/band || emp > band*decl {
				detail = fmt.Sprintf("empirical_std=%.4f library_declared=%.4f (%s)", emp, decl, s.label)
			}
			c.Probe("declared_std", args, "C03-declared-std", detail)
		}
	}
}

// c03DeclaredStd: rlwe.NewDistribution computes the standard deviation of Ternary{P} as sqrt(1−P);
// the sampler produces ±1 with total probability P, i.e. sqrt(P).  The two coincide only at P = 1/2.
func c03DeclaredStd(c *Ctx) {
	for _, P := range []float64{0.95, 2 / 3.0, 0.5, 0.05} {
		params, err := rlwe.NewParametersFromLiteral(rlwe.ParametersLiteral{LogN: 6, LogQ: []int{40}, Xe: ring.Ternary{P: P}})
		if err != nil {
			continue
		}
		kgen := rlwe.NewKeyGenerator(params)
		sk := kgen.GenSecretKeyNew()
		enc := rlwe.NewEncryptor(params, sk)
		dec := rlwe.NewDecryptor(params, sk)
		a := &c03Acc{}
		for a.n < 8192 {
			pt := dec.DecryptNew(enc.EncryptZeroNew(0))
			a.add(c03Centered(params.Q(), Canon(params.RingQ(), pt.Value, pt.IsNTT, false)))
		}
		emp, decl := a.std(), params.NoiseFreshSK()
		detail := ""
		if emp < decl/3 || emp > 3*decl {
			detail = fmt.Sprintf("Xe=Ternary{P:%.3g}: empirical_std=%.4f NoiseFreshSK()=%.4f sqrt(P)=%.4f", P, emp, decl, math.Sqrt(P))
		}
		c.Probe("declared_std", fmt.Sprintf("xe=ternaryP P=%.3g coeffs=%d seed=%d statistical-test", P, a.n, c.Seed), "C03-declared-std", detail)
	}
}

// c03ProbeDecryptDeg7: Decrypt of a degree-7 (mod 8) ciphertext given outside the NTT domain must agree
// with Decrypt of the same ciphertext given in the NTT domain.
func c03ProbeDecryptDeg7(c *Ctx, s *c03Set, ct *rlwe.Ciphertext) {
	params := s.params
	lc := ct.Level()
	rg := params.RingQ().AtLevel(lc)
	pt := s.dec.DecryptNew(ct)
	ct2 := ct.CopyNew()
	for i := range ct2.Value {
		rg.NTT(ct2.Value[i], ct2.Value[i])
	}
	ct2.IsNTT = true
	pt2 := s.dec.DecryptNew(ct2)
	a := Canon(rg, pt.Value, false, false)
	b := Canon(rg, pt2.Value, true, false)
	bad := 0
	for i := range a {
		for j := range a[i] {
			if a[i][j] != b[i][j] {
				bad++
			}
		}
	}
	detail := ""
	if bad != 0 {
		detail = fmt.Sprintf("%d of %d coefficients differ between Decrypt(ct) and INTT(Decrypt(NTT(ct)))", bad, len(a)*len(a[0]))
	}
	c.Probe("decrypt_degree7", fmt.Sprintf("%s deg=%d lc=%d seed=%d", s.hdr, len(ct.Value)-1, lc, c.Seed), "C03-decrypt-degree7-noreduce", detail)
	c.Count("dec:deg7-nonNTT")
}

// c03ActualSecretNorm2: ‖s‖² (times the embedding factor kappa) of the set's drawn secret key.
func c03ActualSecretNorm2(s *c03Set) float64 {
	rq := s.params.RingQ().AtLevel(0)
	var n2 float64
	for _, x := range c03Centered(s.params.Q()[:1], Canon(rq, s.sk.Value.Q, true, true)) {
		f, _ := new(big.Float).SetInt(x).Float64()
		n2 += f * f
	}
	return n2 * s.kappa
}

// c03DegeneracyNegligible: under the DECLARED distributions, are P(noise = 0) and P(noise = noise') below 2^-30 ?
func c03DegeneracyNegligible(s *c03Set, path string) bool {
	var zero, coll float64
	gauss := func(sigma float64) {
		zero = math.Min(1, 0.4/sigma)
		coll = math.Min(1, 0.2821/sigma)
	}
	sigU2 := float64(s.N) * s.sigS * s.sigS * s.kappa
	sS2 := c03ActualSecretNorm2(s) // the secret is fixed: its drawn norm, not its expected one, decides
	switch path {
	case "pkP":
		if sS2 <= s.kappa {
			return false // weight ≤ 1: noise = round(e/P) = 0 legitimately (see c03Statistics)
		}
		gauss(math.Sqrt(sS2 / 12)) // the r1·s part alone: r0 + e/P only completes it to an integer
	case "pkNoP":
		gauss(s.sigE * math.Sqrt(sigU2+sS2+1))
	default:
		switch x := s.params.Xe().(type) {
		case ring.Ternary:
			if x.H != 0 {
				// exactly H non-zero coefficients: never 0, but two draws coincide with probability
				// 1/(C(N,H)·2^H), which is 1/32 for H = 1 at N = 16
				lg := float64(x.H)
				for i := 0; i < x.H; i++ {
					lg += math.Log2(float64(s.N-i)) - math.Log2(float64(i+1))
				}
				return lg > 30
			}
			zero = 1 - x.P
			coll = (1-x.P)*(1-x.P) + x.P*x.P/2
		case ring.DiscreteGaussian:
			gauss(x.Sigma)
		}
	}
	lim := math.Exp2(-30)
	return math.Pow(zero, float64(s.N)) < lim && math.Pow(coll, float64(s.N)) < lim
}

// c03DecryptReusedReceiver: Decrypt(ct, pt) into a receiver that was allocated at another level and still
// holds junk (value rows and metadata).  sk- and pk-encryptions, NTT and coefficient domain, every ciphertext
// level into every higher receiver level (the receiver must shrink) and every lower one (only the first
// rows of the ciphertext are used).
func c03DecryptReusedReceiver(c *Ctx, s *c03Set) {
	params := s.params
	for _, key := range []string{"sk", "pk"} {
		var enc *rlwe.Encryptor
		if key == "sk" {
			enc = rlwe.NewEncryptor(params, s.sk)
		} else {
			enc = rlwe.NewEncryptor(params, s.pk)
		}
		bound := c03BigBound(c03Bound(s, key))
		for _, ntt := range []bool{true, false} {
			for lc := 0; lc <= s.maxL; lc++ {
				for lr := 0; lr <= s.maxL; lr++ {
					if lr == lc && s.maxL > 0 {
						continue
					}
					pt := rlwe.NewPlaintext(params, lc)
					*pt.MetaData = *c03RandMeta(c, s)
					pt.IsNTT, pt.IsMontgomery = ntt, false
					c03RandPoly(c, s, pt.Value, 0)
					ct, err := enc.EncryptNew(pt)
					if err != nil {
						panic(err)
					}
					recv := rlwe.NewPlaintext(params, lr)
					*recv.MetaData = *c03RandMeta(c, s)
					c03RandPoly(c, s, recv.Value, 0)
					args := fmt.Sprintf("%s key=%s ntt=%d lc=%d lrecv=%d seed=%d", s.hdr, c03Path(s, key), c03B2i(ntt), lc, lr, c.Seed)
					detail := Try(func() string {
						s.dec.Decrypt(ct, recv)
						want := lc
						if lr < lc {
							want = lr
						}
						if recv.Level() != want || recv.Value.Level() != want {
							return fmt.Sprintf("receiver level: pt.Level()=%d pt.Value.Level()=%d, want min(ct,pt)=%d", recv.Level(), recv.Value.Level(), want)
						}
						if c03MetaStr(recv.MetaData) != c03MetaStr(pt.MetaData) || recv.IsNTT != ntt || recv.IsMontgomery {
							return "metadata of the ciphertext not copied into the receiver"
						}
						rg := params.RingQ().AtLevel(want)
						qs := params.Q()[:want+1]
						noise := c03Centered(qs, c03SubRows(qs, Canon(rg, recv.Value, ntt, false), Canon(rg, pt.Value, ntt, false)))
						if inf := c03Inf(noise); inf.Cmp(bound) > 0 {
							return fmt.Sprintf("noise_inf=%s (%d bits) bound=%s", inf.String(), inf.BitLen(), bound.String())
						}
						return ""
					})
					c.Probe("decrypt_reused_receiver", args, "C03-decrypt-reused-receiver", detail)
				}
			}
		}
	}
}

// c03ProbeComponents: each ciphertext component must carry the error the encryptor sampled for it.
// Everything is compared as denoted polynomials (coefficient domain, Montgomery factor removed per flag).
func c03ProbeComponents(c *Ctx, s *c03Set, v *c03Variant, args string, level int, ct, ctDec *rlwe.Ciphertext,
	want, got [][]uint64, tE0, tU, tE1 ring.Poly) {
	params := s.params
	rg := params.RingQ().AtLevel(level)
	qs := params.Q()[:level+1]
	N := s.N
	e0 := Canon(rg, tE0, false, false)
	mulmod := func(a, b, q uint64) uint64 {
		return new(big.Int).Mod(new(big.Int).Mul(new(big.Int).SetUint64(a), new(big.Int).SetUint64(b)), new(big.Int).SetUint64(q)).Uint64()
	}
	isZero := func(rows [][]uint64) bool {
		for _, r := range rows {
			for _, x := range r {
				if x != 0 {
					return false
				}
			}
		}
		return true
	}
	eq := func(a, b [][]uint64) bool { return reflect.DeepEqual(a, b) }
	fail := func(detail string) {
		c.Probe("component_noise_present", args, "C03-component-noise-missing", detail)
	}
	lower := c03DegeneracyNegligible(s, "sk") // zero / repeated draws of Xe itself negligible at this N ?

	if v.key == "sk" {
		// phase − m must be exactly the sampled e (and not 0)
		res := c03SubRows(qs, got, want)
		switch {
		case !eq(res, e0):
			fail("c0 + c1*s - m differs from the error the encryptor sampled")
		case lower && isZero(res):
			fail("c0 + c1*s - m = 0: no error in the ciphertext")
		default:
			fail("")
		}
		return
	}
	if len(ct.Value) < 2 {
		return
	}
	e1 := Canon(rg, tE1, false, false)
	// u·pk_i over Q (pk is stored in NTT + Montgomery form: MulCoeffsMontgomery yields the plain product)
	u := rg.NewPoly()
	for i := 0; i <= level; i++ {
		copy(u.Coeffs[i], tU.Coeffs[i])
	}
	rg.NTT(u, u)
	upk := make([][][]uint64, 2)
	for i := 0; i < 2; i++ {
		t := rg.NewPoly()
		rg.MulCoeffsMontgomery(u, s.pk.Value[i].Q, t)
		upk[i] = Canon(rg, t, true, false)
	}
	comp := make([][][]uint64, 2)
	for i := 0; i < 2; i++ {
		comp[i] = Canon(rg, ct.Value[i], ct.IsNTT, ct.IsMontgomery)
	}
	comp[0] = c03SubRows(qs, comp[0], want) // remove the plaintext
	es := [][][]uint64{e0, e1}
	if s.nP == 0 {
		bad := ""
		for i := 0; i < 2; i++ {
			res := c03SubRows(qs, comp[i], upk[i])
			if !eq(res, es[i]) {
				bad += fmt.Sprintf("c%d - u*pk%d%s differs from the sampled error e%d (residual identically zero: %v); ", i, i,
					map[int]string{0: " - m", 1: ""}[i], i, isZero(res))
			}
		}
		if bad != "" {
			fail(bad)
			return
		}
	} else {
		// p0·c_i − u·pk_i ≡ e_i − δ_i (mod q_j), δ_i the centred residue of u·pk_i + e_i modulo p0
		p0 := params.P()[0]
		rp := params.RingP().AtLevel(0)
		// the extension to P reads the value off the limb with the largest modulus (first such limb)
		ref := 0
		for i, q := range qs {
			if q > qs[ref] {
				ref = i
			}
		}
		q0 := qs[ref]
		cent := func(x, q uint64) int64 { // centred representative (small values)
			if x > q/2 {
				return -int64(q - x)
			}
			return int64(x)
		}
		uP := rp.NewPoly()
		for j := 0; j < N; j++ {
			cv := cent(tU.Coeffs[ref][j], q0)
			if cv < 0 {
				uP.Coeffs[0][j] = p0 - uint64(-cv)%p0
			} else {
				uP.Coeffs[0][j] = uint64(cv) % p0
			}
		}
		rp.NTT(uP, uP)
		for i := 0; i < 2; i++ {
			t := rp.NewPoly()
			rp.MulCoeffsMontgomery(uP, s.pk.Value[i].P, t)
			upkP := Canon(rp, t, true, false)[0]
			for j := 0; j < N; j++ {
				ev := cent(es[i][ref][j], q0)
				x := new(big.Int).Add(new(big.Int).SetUint64(upkP[j]), big.NewInt(ev))
				x.Mod(x, new(big.Int).SetUint64(p0))
				d := new(big.Int).Set(x)
				if x.Cmp(new(big.Int).SetUint64(p0/2)) > 0 {
					d.Sub(d, new(big.Int).SetUint64(p0))
				}
				rhs := new(big.Int).Sub(big.NewInt(ev), d) // e − δ
				for k, q := range qs {
					lhs := (mulmod(p0%q, comp[i][k][j], q) + q - upk[i][k][j]) % q
					r := new(big.Int).Mod(rhs, new(big.Int).SetUint64(q)).Uint64()
					if lhs != r {
						fail(fmt.Sprintf("p0*c%d - u*pk%d (minus p0*m) is not e%d minus the centred residue mod p0 (coefficient %d, modulus %d)", i, i, i, j, k))
						return
					}
				}
			}
		}
	}
	switch {
	case lower && (isZero(e0) || isZero(e1)):
		fail("a component's error is identically zero")
	case lower && eq(e0, e1):
		fail("both components carry the same error")
	default:
		fail("")
	}
}
