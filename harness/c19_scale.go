package main

// C19 — the codec of `DefaultScale` inside the encodings of rlwe / ckks / bgv Parameters, and `Equal`.
//
//   params_observables_roundtrip   after MarshalBinary→UnmarshalBinary and MarshalJSON→UnmarshalJSON EVERY observable of the
//                                  decoded object is the original one — not only Equal(), which ignores some fields:
//                                  DefaultScale().Value (exact big.Float: value and precision), DefaultScale().Mod (exact
//                                  big.Int, nil-ness), LogN, Q, P, Xs, Xe, RingType, NTTFlag (bgv: PlaintextModulus, ckks:
//                                  LogDefaultScale), and re-encoding the decoded object gives identical bytes.
//                                  Scales: integers, non-integers, 2^120+1; moduli T ∈ {65537, 2^53−1, 2^53+1, 2^60−93, 2^61−1,
//                                  2^64−59 …}.  Key C19-codec:Parameters.observables
//   equal_discriminates            two Parameters objects differing in exactly one field are not Equal (rlwe: LogN, Q, P, Xs,
//                                  Xe, RingType, DefaultScale.Value, DefaultScale.Mod, NTTFlag; ckks: LogDefaultScale; bgv: T).
//                                  Key C19-equal:<Type>
//   tie `scale_json`               the exact text Scale.MarshalJSON writes for an integer value and modulus

import (
	"bytes"
	"encoding/json"
	"fmt"
	"math/big"

	"github.com/tuneinsight/lattigo/v6/core/rlwe"
	"github.com/tuneinsight/lattigo/v6/ring"
	"github.com/tuneinsight/lattigo/v6/schemes/bgv"
	"github.com/tuneinsight/lattigo/v6/schemes/ckks"
)

func c19BigFloatSame(a, b *big.Float) string {
	if a.Cmp(b) != 0 || a.Prec() != b.Prec() || a.Signbit() != b.Signbit() {
		return fmt.Sprintf("%s (prec %d) became %s (prec %d)", a.Text('p', 0), a.Prec(), b.Text('p', 0), b.Prec())
	}
	return ""
}

func c19ScaleSame(a, b rlwe.Scale) string {
	if d := c19BigFloatSame(&a.Value, &b.Value); d != "" {
		return "DefaultScale.Value: " + d
	}
	switch {
	case (a.Mod == nil) != (b.Mod == nil):
		return fmt.Sprintf("DefaultScale.Mod: %v became %v", a.Mod, b.Mod)
	case a.Mod != nil && a.Mod.Cmp(b.Mod) != 0:
		return fmt.Sprintf("DefaultScale.Mod: %s became %s", a.Mod.String(), b.Mod.String())
	}
	return ""
}

// c19RlweObservables compares every accessor-visible field of two rlwe parameter objects.
func c19RlweObservables(a, b *rlwe.Parameters) string {
	switch {
	case a.LogN() != b.LogN():
		return "LogN"
	case Vec(a.Q()) != Vec(b.Q()):
		return "Q"
	case Vec(a.P()) != Vec(b.P()):
		return "P"
	case a.Xs() != b.Xs():
		return fmt.Sprintf("Xs: %+v became %+v", a.Xs(), b.Xs())
	case a.Xe() != b.Xe():
		return fmt.Sprintf("Xe: %+v became %+v", a.Xe(), b.Xe())
	case a.RingType() != b.RingType():
		return "RingType"
	case a.NTTFlag() != b.NTTFlag():
		return "NTTFlag"
	case a.NthRoot() != b.NthRoot() || Vec(a.RingQ().ModuliChain()) != Vec(b.RingQ().ModuliChain()):
		return "rings"
	}
	return c19ScaleSame(a.DefaultScale(), b.DefaultScale())
}

type c19Encodable interface {
	MarshalBinary() ([]byte, error)
	MarshalJSON() ([]byte, error)
}

// c19ObservablesRoundTrip: both codecs; `fresh` makes a zero object, `obs` compares the decoded object with the original.
func c19ObservablesRoundTrip(p c19Encodable, fresh func() interface {
	c19Encodable
	UnmarshalBinary([]byte) error
	UnmarshalJSON([]byte) error
}, obs func(decoded interface{}) string) string {
	return Try(func() string {
		for _, codec := range []string{"binary", "json"} {
			var b []byte
			var err error
			x := fresh()
			if codec == "binary" {
				if b, err = p.MarshalBinary(); err == nil {
					err = x.UnmarshalBinary(b)
				}
			} else {
				if b, err = p.MarshalJSON(); err == nil {
					err = x.UnmarshalJSON(b)
				}
			}
			if err != nil {
				return codec + ": " + c19Sanitize(err.Error())
			}
			if d := obs(x); d != "" {
				return codec + ": " + d
			}
			var b2 []byte
			if codec == "binary" {
				b2, err = x.MarshalBinary()
			} else {
				b2, err = x.MarshalJSON()
			}
			if err != nil || !bytes.Equal(b, b2) {
				return codec + ": re-encoding the decoded object gives different bytes"
			}
		}
		return ""
	})
}

func c19Pow2(k uint, add int64) *big.Int {
	x := new(big.Int).Lsh(big.NewInt(1), k)
	return x.Add(x, big.NewInt(add))
}

func c19ScaleProbes(c *Ctx) {
	// ---- rlwe: DefaultScale values × moduli
	type sv struct {
		name string
		v    interface{}
	}
	third := new(big.Float).SetPrec(128).Quo(big.NewFloat(1), big.NewFloat(3))
	values := []sv{{"1", 1}, {"3", 3}, {"2^20", 1 << 20}, {"2^45+1", uint64(1<<45 + 1)}, {"2^63+5", uint64(1<<63 + 5)}, {"1.5*2^30", 1.5 * (1 << 30)},
		{"0.75", 0.75}, {"1/3", third}, {"2^120+1", c19Pow2(120, 1)}, {"2^127+2^64+1", new(big.Int).Add(c19Pow2(127, 1), c19Pow2(64, 0))}, {"10^30", new(big.Int).Exp(big.NewInt(10), big.NewInt(30), nil)}}
	mods := []uint64{0, 2, 65537, 1<<53 - 1, 1<<53 + 1, 1<<60 - 93, 1<<61 - 1, 1<<62 + 135, 1<<63 + 29, ^uint64(0) - 58, ^uint64(0)}
	freshRlwe := func() interface {
		c19Encodable
		UnmarshalBinary([]byte) error
		UnmarshalJSON([]byte) error
	} {
		return new(rlwe.Parameters)
	}
	for _, v := range values {
		for _, m := range mods {
			sc := rlwe.NewScaleModT(v.v, m)
			p, err := rlwe.NewParametersFromLiteral(rlwe.ParametersLiteral{LogN: 5, LogQ: []int{45, 30}, LogP: []int{46}, DefaultScale: sc, NTTFlag: true})
			d := ""
			if err != nil {
				d = "constructor: " + c19Sanitize(err.Error())
			} else {
				d = c19ObservablesRoundTrip(p, freshRlwe, func(x interface{}) string { return c19RlweObservables(&p, x.(*rlwe.Parameters)) })
			}
			c.Probe("params_observables_roundtrip", fmt.Sprintf("type=rlwe value=%s mod=%d", v.name, m), "C19-codec:Parameters.observables", c19Sanitize(d))
		}
	}
	// other fields of rlwe parameters
	for _, l := range []rlwe.ParametersLiteral{
		{LogN: 5, LogQ: []int{45, 30}},
		{LogN: 5, LogQ: []int{45, 30}, RingType: ring.ConjugateInvariant, Xs: ring.Ternary{H: 8}, Xe: ring.DiscreteGaussian{Sigma: 1.5, Bound: 9}},
		{LogN: 6, LogQ: []int{45}, LogP: []int{46, 47}, Xs: ring.Ternary{P: 0.25}, Xe: ring.Ternary{P: 0.5}, NTTFlag: true},
		{LogN: 6, LogQ: []int{45}, Xs: ring.DiscreteGaussian{Sigma: 3.2, Bound: 19.2}, DefaultScale: rlwe.NewScale(1 << 30)},
	} {
		p, err := rlwe.NewParametersFromLiteral(l)
		d := ""
		if err != nil {
			d = "constructor: " + c19Sanitize(err.Error())
		} else {
			d = c19ObservablesRoundTrip(p, freshRlwe, func(x interface{}) string { return c19RlweObservables(&p, x.(*rlwe.Parameters)) })
		}
		c.Probe("params_observables_roundtrip", fmt.Sprintf("type=rlwe fields logN=%d rt=%d", l.LogN, l.RingType), "C19-codec:Parameters.observables", c19Sanitize(d))
	}
	// ---- ckks: LogDefaultScale
	for _, lds := range []int{0, 1, 30, 53, 64, 90, 120, 128} {
		p, err := ckks.NewParametersFromLiteral(ckks.ParametersLiteral{LogN: 5, LogQ: []int{45, 30}, LogP: []int{46}, LogDefaultScale: lds})
		d := ""
		if err != nil {
			d = "constructor: " + c19Sanitize(err.Error())
		} else {
			d = c19ObservablesRoundTrip(p, func() interface {
				c19Encodable
				UnmarshalBinary([]byte) error
				UnmarshalJSON([]byte) error
			} {
				return new(ckks.Parameters)
			}, func(x interface{}) string {
				y := x.(*ckks.Parameters)
				if y.LogDefaultScale() != p.LogDefaultScale() {
					return "LogDefaultScale"
				}
				return c19RlweObservables(&p.Parameters, &y.Parameters)
			})
		}
		c.Probe("params_observables_roundtrip", fmt.Sprintf("type=ckks lds=%d", lds), "C19-codec:Parameters.observables", c19Sanitize(d))
	}
	// ---- bgv: plaintext moduli up to 60 bits (T <= Q[0], prime, 1 mod 2N)
	n2 := uint64(2) << 5
	q0 := c19PrimeWithBits(c, 61, n2, nil)
	q1 := c19PrimeWithBits(c, 40, n2, nil)
	for _, tb := range []int{17, 30, 52, 53, 54, 55, 58, 60} {
		t := c19PrimeWithBits(c, tb, n2, map[uint64]bool{q0: true, q1: true})
		if tb == 17 {
			t = 65537
		}
		p, err := bgv.NewParametersFromLiteral(bgv.ParametersLiteral{LogN: 5, Q: []uint64{q0, q1}, PlaintextModulus: t})
		d := ""
		if err != nil {
			d = "constructor: " + c19Sanitize(err.Error())
		} else {
			d = c19ObservablesRoundTrip(p, func() interface {
				c19Encodable
				UnmarshalBinary([]byte) error
				UnmarshalJSON([]byte) error
			} {
				return new(bgv.Parameters)
			}, func(x interface{}) string {
				y := x.(*bgv.Parameters)
				if y.PlaintextModulus() != t || Vec(y.RingT().ModuliChain()) != Vec(p.RingT().ModuliChain()) || Vec(y.RingQMul().ModuliChain()) != Vec(p.RingQMul().ModuliChain()) {
					return fmt.Sprintf("PlaintextModulus / RingT / RingQMul: t=%d became %d", t, y.PlaintextModulus())
				}
				return c19RlweObservables(&p.Parameters, &y.Parameters)
			})
			// the rlwe layer of the same object (this is the codec that carries DefaultScale.Mod = T)
			if d == "" {
				rp := p.Parameters
				d = c19ObservablesRoundTrip(rp, freshRlwe, func(x interface{}) string { return c19RlweObservables(&rp, x.(*rlwe.Parameters)) })
				if d != "" {
					d = "embedded rlwe.Parameters: " + d
				}
			}
		}
		c.Probe("params_observables_roundtrip", fmt.Sprintf("type=bgv tbits=%d t=%d", tb, t), "C19-codec:Parameters.observables", c19Sanitize(d))
	}

	// ---- Equal must see every field
	gen, err := rlwe.NewParametersFromLiteral(rlwe.ParametersLiteral{LogN: 5, LogNthRoot: 7, LogQ: []int{45, 30}, LogP: []int{46}})
	if err != nil {
		panic(err)
	}
	// explicit moduli, 1 mod 128: valid for LogN 4 and 5 and for both ring types, so that one field at a time can differ
	base := rlwe.ParametersLiteral{LogN: 5, Q: gen.Q(), P: gen.P(), DefaultScale: rlwe.NewScaleModT(3, 65537), NTTFlag: true}
	pb, err := rlwe.NewParametersFromLiteral(base)
	if err != nil {
		panic(err)
	}
	other, err := rlwe.NewParametersFromLiteral(rlwe.ParametersLiteral{LogN: 5, LogNthRoot: 7, LogQ: []int{44, 31}, LogP: []int{47}})
	if err != nil {
		panic(err)
	}
	rl := func(m func(*rlwe.ParametersLiteral)) rlwe.ParametersLiteral { l := base; m(&l); return l }
	for _, x := range []struct {
		field string
		l     rlwe.ParametersLiteral
	}{
		{"LogN", rl(func(l *rlwe.ParametersLiteral) { l.LogN = 4 })},
		{"Q", rl(func(l *rlwe.ParametersLiteral) { l.Q = []uint64{base.Q[0], other.Q()[1]} })},
		{"Q-length", rl(func(l *rlwe.ParametersLiteral) { l.Q = base.Q[:1] })},
		{"P", rl(func(l *rlwe.ParametersLiteral) { l.P = other.P() })},
		{"P-none", rl(func(l *rlwe.ParametersLiteral) { l.P = nil })},
		{"Xs", rl(func(l *rlwe.ParametersLiteral) { l.Xs = ring.Ternary{H: 8} })},
		{"Xe", rl(func(l *rlwe.ParametersLiteral) { l.Xe = ring.DiscreteGaussian{Sigma: 1.5, Bound: 9} })},
		{"RingType", rl(func(l *rlwe.ParametersLiteral) { l.RingType = ring.ConjugateInvariant })},
		{"NTTFlag", rl(func(l *rlwe.ParametersLiteral) { l.NTTFlag = false })},
		{"DefaultScale.Value", rl(func(l *rlwe.ParametersLiteral) { l.DefaultScale = rlwe.NewScaleModT(4, 65537) })},
		{"DefaultScale.Mod", rl(func(l *rlwe.ParametersLiteral) { l.DefaultScale = rlwe.NewScaleModT(3, 65539) })},
		{"DefaultScale.Mod-nil", rl(func(l *rlwe.ParametersLiteral) { l.DefaultScale = rlwe.NewScale(3) })},
	} {
		d := ""
		po, e := rlwe.NewParametersFromLiteral(x.l)
		if e != nil {
			d = "constructor: " + c19Sanitize(e.Error())
		} else if pb.Equal(&po) || po.Equal(&pb) {
			d = "rlwe.Parameters.Equal does not see a difference in " + x.field
		}
		c.Probe("equal_discriminates", "type=rlwe.Parameters field="+x.field, "C19-equal:rlwe.Parameters", d)
	}
	ck := func(lds int, rt ring.Type) ckks.Parameters {
		p, e := ckks.NewParametersFromLiteral(ckks.ParametersLiteral{LogN: 5, LogQ: []int{45, 30}, LogDefaultScale: lds, RingType: rt})
		if e != nil {
			panic(e)
		}
		return p
	}
	c0 := ck(30, ring.Standard)
	for _, x := range []struct {
		field string
		p     ckks.Parameters
	}{{"LogDefaultScale", ck(31, ring.Standard)}, {"RingType", ck(30, ring.ConjugateInvariant)}} {
		d := ""
		if c0.Equal(&x.p) {
			d = "ckks.Parameters.Equal does not see a difference in " + x.field
		}
		c.Probe("equal_discriminates", "type=ckks.Parameters field="+x.field, "C19-equal:ckks.Parameters", d)
	}
	bg := func(t uint64, lq []int) bgv.Parameters {
		p, e := bgv.NewParametersFromLiteral(bgv.ParametersLiteral{LogN: 5, LogQ: lq, PlaintextModulus: t})
		if e != nil {
			panic(e)
		}
		return p
	}
	b0 := bg(65537, []int{45, 30})
	for _, x := range []struct {
		field string
		p     bgv.Parameters
	}{{"PlaintextModulus", bg(257, []int{45, 30})}, {"Q", bg(65537, []int{45, 31})}} {
		d := ""
		if b0.Equal(&x.p) {
			d = "bgv.Parameters.Equal does not see a difference in " + x.field
		}
		c.Probe("equal_discriminates", "type=bgv.Parameters field="+x.field, "C19-equal:bgv.Parameters", d)
	}

	// ---- tie: the exact text of a Scale (integer value, modulus)
	emit := func(v *big.Int, m uint64) {
		sc := rlwe.NewScaleModT(v, m)
		out := "err"
		if b, e := sc.MarshalJSON(); e == nil {
			var aux struct{ Value, Mod string }
			if json.Unmarshal(b, &aux) == nil {
				out = "value=" + aux.Value + " mod=" + aux.Mod
			}
		}
		c.Emit(fmt.Sprintf("scale_json value=%s mod=%d", v.String(), m), out)
		c.Count("scale_json")
	}
	ints := []*big.Int{big.NewInt(0), big.NewInt(1), big.NewInt(7), big.NewInt(10), big.NewInt(99), big.NewInt(65537), c19Pow2(53, 1), c19Pow2(64, -59), c19Pow2(120, 1),
		c19Pow2(127, 12345), new(big.Int).Sub(c19Pow2(128, 0), big.NewInt(1)), new(big.Int).Exp(big.NewInt(10), big.NewInt(38), nil)}
	for _, v := range ints {
		for _, m := range []uint64{0, 65537, 1<<53 + 1, ^uint64(0) - 58} {
			emit(v, m)
		}
	}
	for i := 0; i < c.Scale(40, 400); i++ {
		bitsV := 1 + c.rng.Intn(128)
		v := new(big.Int).SetBytes(c.rng.Bytes(16))
		v.Rsh(v, uint(128-bitsV))
		emit(v, c.rng.U64()>>uint(c.rng.Intn(64)))
	}
}
