package main

// C20: (a) the lazy accumulators of externalProductInPlaceMultipleP at word level (tie eplazy): per limb, the
// unreduced sums of MRedLazy products and the two INDEPENDENT reduction schedules (Q limbs every
// QiOverflowMargin>>1 accumulations, P limbs every PiOverflowMargin>>1), observed in eval.BuffQP[1], BuffQP[2]
// after an in-place product; (b) external-product shapes with MANY RNS digits and unequal Q/P prime sizes in
// both directions; (c) base-2 decompositions on chains of UNEQUAL prime sizes (digit count differs per prime).

import (
	"fmt"

	"github.com/tuneinsight/lattigo/v6/core/rgsw"
	"github.com/tuneinsight/lattigo/v6/core/rlwe"
	"github.com/tuneinsight/lattigo/v6/ring"
	"github.com/tuneinsight/lattigo/v6/ring/ringqp"
)

// c20LazyTie: eval has just run ExternalProduct(ct, rg, ct) in place with levelP >= 1 on a copy of ctIn.
func c20LazyTie(c *Ctx, ps *c20PS, eval *rgsw.Evaluator, ctIn *rlwe.Ciphertext, rg *rgsw.Ciphertext) {
	lq, lp := rg.LevelQ(), rg.LevelP()
	ringQP := ps.params.RingQP().AtLevel(lq, lp)
	ringQ := ringQP.RingQ
	nI := len(rg.Value[0].Value)
	twin := rgsw.NewEvaluator(ps.params, nil)
	// digits, in the order of the accumulation: k = 0 (c0), 1 (c1); i = 0 .. nI-1
	var digits []ringqp.Poly
	for k := 0; k < 2; k++ {
		c2NTT := ctIn.Value[k]
		c2Inv := ringQ.NewPoly()
		ringQ.INTT(c2NTT, c2Inv)
		for i := 0; i < nI; i++ {
			d := ringQP.NewPoly()
			twin.DecomposeSingleNTT(lq, lp, lp+1, i, c2NTT, c2Inv, d.Q, d.P)
			digits = append(digits, d)
		}
	}
	limb := func(isP bool, u int) {
		var p, mrc uint64
		var fam []uint64
		get := func(x ringqp.Poly) []uint64 {
			if isP {
				return x.P.Coeffs[u]
			}
			return x.Q.Coeffs[u]
		}
		if isP {
			sr := ringQP.RingP.SubRings[u]
			p, mrc, fam = sr.Modulus, sr.MRedConstant, ps.P[:lp+1]
		} else {
			sr := ringQ.SubRings[u]
			p, mrc, fam = sr.Modulus, sr.MRedConstant, ps.Q[:lq+1]
		}
		var R0, R1, C [][]uint64
		for k := 0; k < 2; k++ {
			for i := 0; i < nI; i++ {
				R0 = append(R0, append([]uint64(nil), get(rg.Value[k].Value[i][0][0])...))
				R1 = append(R1, append([]uint64(nil), get(rg.Value[k].Value[i][0][1])...))
				C = append(C, append([]uint64(nil), get(digits[k*nI+i])...))
			}
		}
		c.Emit(fmt.Sprintf("eplazy p=%d mrc=%d fam=%s r0=%s r1=%s c=%s", p, mrc, Vec(fam), Mat(R0), Mat(R1), Mat(C)),
			Vec(get(eval.BuffQP[1]))+"|"+Vec(get(eval.BuffQP[2])))
		c.Count(fmt.Sprintf("eplazy:isP=%v terms=%d", isP, len(C)))
	}
	limb(false, 0)
	if lq > 0 {
		limb(false, lq)
	}
	for u := 0; u <= lp; u++ {
		limb(true, u)
	}
}

type c20Chain struct {
	logN         int
	bitsQ, bitsP []int
	w            int
	lq, lp       int // level of the RGSW ciphertext (-2: maximum)
}

func c20RunChain(c *Ctx, pg *c20PrimeGen, ch c20Chain, tag string, kinds int) {
	nth := uint64(2 << ch.logN)
	var Q, P []uint64
	for i, b := range ch.bitsQ {
		dir := []int{-1, 1}[i%2]
		if b >= 61 {
			dir = -1 // rlwe accepts moduli up to 61 bits
		}
		Q = append(Q, pg.next(b, nth, dir))
	}
	for _, b := range ch.bitsP {
		P = append(P, pg.next(b, nth, -1))
	}
	ps, err := c20NewPS(ch.logN, Q, P)
	if err != nil {
		c.Count(tag + ":params-rejected")
		return
	}
	lq, lp := ch.lq, ch.lp
	if lq == -2 {
		lq = len(Q) - 1
	}
	if lp == -2 {
		lp = len(P) - 1
	}
	c.Count(fmt.Sprintf("%s:nQ=%d nP=%d lq=%d lp=%d w=%d", tag, len(Q), len(P), lq, lp, ch.w))
	sk := rlwe.NewKeyGenerator(ps.params).GenSecretKeyNew()
	sInts := ps.secretInts(sk)
	g := c20Message(c, ps.N(), c.rng.Intn(5))
	var rg *rgsw.Ciphertext
	if out := Try(func() string {
		rg = c20Encrypt(c, ps, sk, sInts, g, lq, lp, ch.w, "api", true, false)
		return "ok"
	}); out != "ok" {
		c.Probe("rgsw_enc_no_panic", fmt.Sprintf("%s tag=%s", c20ParTokens(ps, lq, lp, ch.w), tag), "rgsw-encrypt-panic", "Encrypt -> "+out)
		return
	}
	c20RowsNoise(c, ps, sk, rg, g, ch.w, "api")
	for kind := 0; kind < kinds; kind++ {
		ct := c20RandCt(c, ps, sk, lq, kind)
		c20ExtProd(c, ps, sk, sInts, ct, rg, g, ch.w, true, "api", tag)
		c20ExtProd(c, ps, sk, sInts, ct, rg, g, ch.w, false, "api", tag)
	}
}

// c20GenUnequal: BaseTwoDecomposition > 0 with levelP <= 0 on chains of unequal prime sizes, both orders.
func c20GenUnequal(c *Ctx) {
	pg := newC20PrimeGen()
	chains := [][]int{{20, 35}, {35, 20}, {20, 35, 28}, {36, 22, 30}}
	ws := []int{8, 4}
	if c.Thorough() {
		chains = append(chains, []int{25, 45}, []int{45, 25}, []int{20, 21, 40}, []int{44, 30, 20}, []int{30, 31}, []int{61, 20}, []int{20, 61})
		ws = []int{8, 4, 12, 5, 16}
	}
	for ci, bq := range chains {
		for _, w := range ws {
			for nP := 0; nP <= 1; nP++ {
				if !c.Thorough() && (ci+w+nP)%2 == 1 && ci >= 2 {
					continue
				}
				var bp []int
				if nP == 1 {
					bp = []int{46}
				}
				c20RunChain(c, pg, c20Chain{4, bq, bp, w, -2, -2}, "unequal", c.Scale(2, 3))
				if c.Thorough() && len(bq) > 2 {
					c20RunChain(c, pg, c20Chain{4, bq, bp, w, 1, -2}, "unequal", 2)
				}
			}
		}
	}
}

// c20GenManyDigits: levelP >= 1, many RNS digits, small Q + large P and large Q + small P, all levels.
func c20GenManyDigits(c *Ctx) {
	pg := newC20PrimeGen()
	rep := func(b, n int) []int {
		v := make([]int, n)
		for i := range v {
			v[i] = b
		}
		return v
	}
	type md struct {
		bq, bp []int
		lqs    []int
		lps    []int
	}
	list := []md{
		{rep(36, 16), []int{61, 61}, []int{15, 12}, []int{1}},
		{rep(61, 6), []int{36, 37}, []int{5}, []int{1}},
	}
	if c.Thorough() {
		list = []md{
			{rep(36, 16), []int{61, 61}, []int{15, 14, 13, 11, 7, 3, 1, 0}, []int{1}},
			{rep(61, 8), []int{36, 37}, []int{7, 6, 4, 2, 1}, []int{1}},
			{append(rep(30, 6), rep(50, 6)...), []int{61, 45, 60}, []int{11, 9, 6, 5}, []int{2, 1}},
			{rep(40, 15), []int{60, 61, 59}, []int{14, 13, 12}, []int{2, 1}},
			{rep(28, 20), []int{61, 61}, []int{19}, []int{1}},
			{append([]int{61}, rep(33, 11)...), []int{61, 34}, []int{11, 10}, []int{1}},
		}
	}
	for _, m := range list {
		for _, lq := range m.lqs {
			for _, lp := range m.lps {
				c20RunChain(c, pg, c20Chain{4, m.bq, m.bp, 0, lq, lp}, "manydigits", c.Scale(1, 2))
			}
		}
	}
}

var _ = ring.NewPoly
