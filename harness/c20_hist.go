package main

// C20: history of one blindrot.Evaluator.  One evaluator is used for a sequence of Evaluate calls with
// alternating key sets (different blind-rotation and LWE secrets), test polynomials and slot maps; every result
// must be bit-identical to the result of a fresh evaluator on the same call (Evaluate is deterministic) and must
// decrypt to f(x) (the probes of c20BREvaluate, run on the SHARED evaluator).

import (
	"fmt"
	"math/big"
	"sort"

	"github.com/tuneinsight/lattigo/v6/core/rgsw/blindrot"
	"github.com/tuneinsight/lattigo/v6/core/rlwe"
	"github.com/tuneinsight/lattigo/v6/ring"
	"github.com/tuneinsight/lattigo/v6/utils"
)

type c20KeySet struct {
	name   string
	skBR   *rlwe.SecretKey
	skL    *rlwe.SecretKey
	sBR    []int64
	sL     []int64
	brk    blindrot.MemBlindRotationEvaluationKeySet
	advSet map[uint64]bool
}

func c20GenHistory(c *Ctx) {
	pg := newC20PrimeGen()
	cfgs := []c20BRCfg{{4, 4, []int{27}, []int{40}, 7, []int{14}, 3, false, -1, false, false},
		{4, 4, []int{27}, []int{40}, 7, []int{14}, 2, false, -1, false, true}}
	if c.Thorough() {
		cfgs = append(cfgs,
			c20BRCfg{4, 4, []int{27}, nil, 7, []int{14}, 2, false, -1, false, false},
			c20BRCfg{5, 4, []int{30}, []int{41}, 0, []int{15}, 4, false, -1, true, true},
			c20BRCfg{4, 4, []int{28, 30}, []int{40, 41}, 0, []int{13, 14}, 2, false, -1, false, false})
	}
	for _, cfg := range cfgs {
		nthBR := uint64(2 << cfg.logNBR)
		var Q, P, QL []uint64
		for _, b := range cfg.bitsQ {
			Q = append(Q, pg.next(b, nthBR, -1))
		}
		for _, b := range cfg.bitsP {
			P = append(P, pg.next(b, nthBR, 0))
		}
		for _, b := range cfg.bitsLWE {
			QL = append(QL, pg.next(b, uint64(2<<cfg.logNLWE), -1))
		}
		psBR, err := c20NewPSFlag(cfg.logNBR, Q, P, !cfg.brCoeff)
		if err != nil {
			continue
		}
		psL, err := c20NewPSFlag(cfg.logNLWE, QL, nil, !cfg.lweCoeff)
		if err != nil {
			continue
		}
		N, NL := psBR.N(), psL.N()
		twoN := uint64(2 * N)
		lq, w := len(Q)-1, cfg.w
		llq := len(QL) - 1
		QLb := c20ProdBig(QL)
		evkParams := rlwe.EvaluationKeyParameters{BaseTwoDecomposition: utils.Pointy(w)}

		mk := func(name string, skBR *rlwe.SecretKey) *c20KeySet {
			ks := &c20KeySet{name: name, skBR: skBR}
			if ks.skBR == nil {
				ks.skBR = rlwe.NewKeyGenerator(psBR.params).GenSecretKeyNew()
			}
			ks.skL = rlwe.NewKeyGenerator(psL.params).GenSecretKeyWithHammingWeightNew(cfg.hw)
			ks.sBR, ks.sL = psBR.secretInts(ks.skBR), psL.secretInts(ks.skL)
			ks.brk = blindrot.GenEvaluationKeyNew(psBR.params, ks.skBR, psL.params, ks.skL, evkParams)
			evk, _ := ks.brk.GetEvaluationKeySet()
			ks.advSet = map[uint64]bool{}
			for _, g := range evk.GetGaloisKeysList() {
				ks.advSet[g] = true
			}
			return ks
		}
		A := mk("A", nil)
		B := mk("B", nil)
		Cs := mk("C", A.skBR) // same blind-rotation secret as A, other LWE secret and fresh keys
		sets := []*c20KeySet{A, B, Cs}

		fns := c20Functions(c, N)
		type tp struct {
			fn    c20Fn
			poly  ring.Poly
			rows  [][]uint64
			scale float64
		}
		var tps []tp
		for _, fn := range fns {
			scale := float64(Q[0]) / 4.0
			F := blindrot.InitTestPolynomial(fn.f, rlwe.NewScale(scale), psBR.params.RingQ(), fn.a, fn.b)
			tps = append(tps, tp{fn, F, psBR.canonQ(F, lq, true, false), scale})
		}

		shared := blindrot.NewEvaluator(psBR.params, psL.params)
		requested := map[string]map[uint64]bool{}
		pattern := []int{0, 1, 0, 0, 1, 2, 1, 0}
		steps := len(pattern)
		if c.Thorough() {
			steps = 20
		}
		hist := ""
		for step := 0; step < steps; step++ {
			var ksX *c20KeySet
			if step < len(pattern) {
				ksX = sets[pattern[step]]
			} else {
				ksX = sets[c.rng.Intn(3)]
			}
			hist += ksX.name
			t := tps[(step+c.rng.Intn(2))%len(tps)]
			// LWE sample under this key set's LWE secret
			kvals := make([]int, NL)
			mv := make([]*big.Int, NL)
			for i := range mv {
				kvals[i] = c.rng.Intn(N+1) - N/2
				m := new(big.Int).Mul(QLb, big.NewInt(int64(kvals[i])))
				m.Div(m, big.NewInt(int64(twoN)))
				m.Add(m, big.NewInt(int64(c.rng.Intn(3))-1))
				mv[i] = m
			}
			c1 := make([][]uint64, llq+1)
			for k := range c1 {
				c1[k] = make([]uint64, NL)
				for tt := range c1[k] {
					c1[k][tt] = c.rng.Below(QL[k])
				}
			}
			ctL := psL.mkCt(ksX.skL, psL.rowsFromBig(mv, llq), c1)
			if step%3 != 0 {
				// coefficient-domain sample: Evaluate must copy it, the same sample is evaluated three times below
				psL.params.RingQ().AtLevel(llq).INTT(ctL.Value[0], ctL.Value[0])
				psL.params.RingQ().AtLevel(llq).INTT(ctL.Value[1], ctL.Value[1])
				ctL.IsNTT = false
			}
			// slot map: a subset, a different test polynomial per slot on odd steps
			tpm := map[int]*ring.Poly{}
			var idxs []int
			for i := 0; i < NL; i++ {
				if c.rng.Intn(3) != 0 || i == (step*5)%NL {
					idxs = append(idxs, i)
					if step%2 == 1 {
						tpm[i] = &tps[(i+step)%len(tps)].poly
					} else {
						tpm[i] = &t.poly
					}
				}
			}
			sort.Ints(idxs)
			var r1, r2 map[int]*rlwe.Ciphertext
			out := Try(func() string {
				var e1, e2 error
				r1, e1 = shared.Evaluate(ctL, tpm, ksX.brk)
				r2, e2 = blindrot.NewEvaluator(psBR.params, psL.params).Evaluate(ctL, tpm, ksX.brk)
				if e1 != nil || e2 != nil {
					return "err"
				}
				return "ok"
			})
			detail := ""
			if out != "ok" {
				detail = "Evaluate -> " + out
			} else {
				for _, i := range idxs {
					a, b := psBR.ctPolys(r1[i], lq), psBR.ctPolys(r2[i], lq)
					if c20Polys(a) != c20Polys(b) && detail == "" {
						detail = fmt.Sprintf("step %d (history %s): slot %d of the reused evaluator differs from a fresh evaluator's", step, hist, i)
					}
				}
			}
			c.Probe("blindrot_history", fmt.Sprintf("n=%d nl=%d nP=%d w=%d step=%d history=%s slots=%d mixed=%d ntt=%d seed=%d", N, NL, len(P), w, step, hist, len(idxs), step%2, c20B2i(ctL.IsNTT), c.Seed),
				"blindrot-evaluator-state", detail)
			c.Count("history:keyset=" + ksX.name)
			// ties and f(x) probes on the shared evaluator (one test polynomial for all slots)
			c20BREvaluate(c, psBR, psL, shared, ksX.brk, ksX.skBR, ksX.sBR, ksX.sL, ctL, t.fn, t.poly, t.rows, t.scale, kvals, idxs, w, cfg, ksX.advSet, requested)
		}
	}
}
