package main

import (
	"fmt"

	"github.com/tuneinsight/lattigo/v6/ring"
	"github.com/tuneinsight/lattigo/v6/ring/ringqp"
)

// probeRingQP checks that every ringqp.Ring operation is exactly the pair of the same operation
// in RingQ and in RingP (the Q and P rings' own operations are tied to the model elsewhere).
func probeRingQP(c *Ctx) {
	r := c.rng
	N := 16
	qs := primesFor(uint64(2*N), []int{30, 45})
	ps := primesFor(uint64(2*N), []int{50, 61})
	if len(qs) < 2 || len(ps) < 2 {
		return
	}
	rq, err1 := ring.NewRing(N, qs[:2])
	rp, err2 := ring.NewRing(N, ps[:2])
	if err1 != nil || err2 != nil {
		return
	}
	full := ringqp.Ring{RingQ: rq, RingP: rp}
	for rep := 0; rep < c.Scale(4, 30); rep++ {
		lq, lp := r.Intn(2), r.Intn(3)-1 // levelP = -1: no P part
		R := full.AtLevel(lq, lp)
		mk := func() ringqp.Poly {
			p := R.NewPoly()
			for i := 0; i <= lq; i++ {
				copy(p.Q.Coeffs[i], patVec(r, c.pat(), N, qs[i]))
			}
			for i := 0; i <= lp; i++ {
				copy(p.P.Coeffs[i], patVec(r, c.pat(), N, ps[i]))
			}
			return p
		}
		a, b, z := mk(), mk(), mk()
		gal := uint64(2*r.Intn(N) + 1)
		sc := r.U64()
		type qpop struct {
			name string
			qp   func(o ringqp.Poly)
			q    func(rr *ring.Ring, x, y, o ring.Poly)
		}
		ops := []qpop{
			{"Add", func(o ringqp.Poly) { R.Add(a, b, o) }, func(rr *ring.Ring, x, y, o ring.Poly) { rr.Add(x, y, o) }},
			{"AddLazy", func(o ringqp.Poly) { R.AddLazy(a, b, o) }, func(rr *ring.Ring, x, y, o ring.Poly) { rr.AddLazy(x, y, o) }},
			{"Sub", func(o ringqp.Poly) { R.Sub(a, b, o) }, func(rr *ring.Ring, x, y, o ring.Poly) { rr.Sub(x, y, o) }},
			{"Neg", func(o ringqp.Poly) { R.Neg(a, o) }, func(rr *ring.Ring, x, y, o ring.Poly) { rr.Neg(x, o) }},
			{"MulScalar", func(o ringqp.Poly) { R.MulScalar(a, sc, o) }, func(rr *ring.Ring, x, y, o ring.Poly) { rr.MulScalar(x, sc, o) }},
			{"NTT", func(o ringqp.Poly) { R.NTT(a, o) }, func(rr *ring.Ring, x, y, o ring.Poly) { rr.NTT(x, o) }},
			{"INTT", func(o ringqp.Poly) { R.INTT(a, o) }, func(rr *ring.Ring, x, y, o ring.Poly) { rr.INTT(x, o) }},
			{"NTTLazy", func(o ringqp.Poly) { R.NTTLazy(a, o) }, func(rr *ring.Ring, x, y, o ring.Poly) { rr.NTTLazy(x, o) }},
			{"INTTLazy", func(o ringqp.Poly) { R.INTTLazy(a, o) }, func(rr *ring.Ring, x, y, o ring.Poly) { rr.INTTLazy(x, o) }},
			{"MForm", func(o ringqp.Poly) { R.MForm(a, o) }, func(rr *ring.Ring, x, y, o ring.Poly) { rr.MForm(x, o) }},
			{"IMForm", func(o ringqp.Poly) { R.IMForm(a, o) }, func(rr *ring.Ring, x, y, o ring.Poly) { rr.IMForm(x, o) }},
			{"MulCoeffsMontgomery", func(o ringqp.Poly) { R.MulCoeffsMontgomery(a, b, o) }, func(rr *ring.Ring, x, y, o ring.Poly) { rr.MulCoeffsMontgomery(x, y, o) }},
			{"MulCoeffsMontgomeryLazy", func(o ringqp.Poly) { R.MulCoeffsMontgomeryLazy(a, b, o) }, func(rr *ring.Ring, x, y, o ring.Poly) { rr.MulCoeffsMontgomeryLazy(x, y, o) }},
			{"MulCoeffsMontgomeryLazyThenAddLazy", func(o ringqp.Poly) { R.MulCoeffsMontgomeryLazyThenAddLazy(a, b, o) }, func(rr *ring.Ring, x, y, o ring.Poly) { rr.MulCoeffsMontgomeryLazyThenAddLazy(x, y, o) }},
			{"MulCoeffsMontgomeryThenSub", func(o ringqp.Poly) { R.MulCoeffsMontgomeryThenSub(a, b, o) }, func(rr *ring.Ring, x, y, o ring.Poly) { rr.MulCoeffsMontgomeryThenSub(x, y, o) }},
			{"MulCoeffsMontgomeryLazyThenSubLazy", func(o ringqp.Poly) { R.MulCoeffsMontgomeryLazyThenSubLazy(a, b, o) }, func(rr *ring.Ring, x, y, o ring.Poly) { rr.MulCoeffsMontgomeryLazyThenSubLazy(x, y, o) }},
			{"MulCoeffsMontgomeryThenAdd", func(o ringqp.Poly) { R.MulCoeffsMontgomeryThenAdd(a, b, o) }, func(rr *ring.Ring, x, y, o ring.Poly) { rr.MulCoeffsMontgomeryThenAdd(x, y, o) }},
			{"Reduce", func(o ringqp.Poly) { R.Reduce(a, o) }, func(rr *ring.Ring, x, y, o ring.Poly) { rr.Reduce(x, o) }},
			{"Automorphism", func(o ringqp.Poly) { R.Automorphism(a, gal, o) }, func(rr *ring.Ring, x, y, o ring.Poly) { rr.Automorphism(x, gal, o) }},
			{"AutomorphismNTT", func(o ringqp.Poly) { R.AutomorphismNTT(a, gal, o) }, func(rr *ring.Ring, x, y, o ring.Poly) { rr.AutomorphismNTT(x, gal, o) }},
		}
		for _, op := range ops {
			detail := Try(func() string {
				o := R.NewPoly()
				o.Q.Copy(z.Q)
				if lp >= 0 {
					o.P.Copy(z.P)
				}
				op.qp(o)
				wq := R.RingQ.NewPoly()
				wq.Copy(z.Q)
				op.q(R.RingQ, a.Q, b.Q, wq)
				if !R.RingQ.Equal(wq, o.Q) && Mat(RawRows(wq)) != Mat(RawRows(o.Q)) {
					return "Q part differs from RingQ." + op.name
				}
				if lp >= 0 {
					wp := R.RingP.NewPoly()
					wp.Copy(z.P)
					op.q(R.RingP, a.P, b.P, wp)
					if Mat(RawRows(wp)) != Mat(RawRows(o.P)) {
						return "P part differs from RingP." + op.name
					}
				}
				return ""
			})
			c.Probe("ringqp_split", fmt.Sprintf("%s lq=%d lp=%d gal=%d sc=%d", op.name, lq, lp, gal, sc), "C01/ringqp.Ring."+op.name+"/differs-from-componentwise", detail)
		}
	}
}
