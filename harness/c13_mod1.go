package main

// C13 (composite circuits) — mod1: sequences of EvaluateNew / EvaluateAndScaleNew calls on ONE evaluator.
//
// EvaluateAndScaleNew folds the output scaling into the coefficients of a COPY of Mod1Poly (resp. Mod1InvPoly);
// the evaluator's parameters must not change, so that a later call — whatever scalings came before — returns
// what a fresh evaluator returns.  Probes only (ckks, approximate):
//   mod1_same_as_fresh   every result of the sequence equals the result of a fresh evaluator on the same input
//   mod1_value           ... and scaling * (x mod 1) within 2^-10 of the message range
//   mod1_params_unchanged Mod1Poly / Mod1InvPoly coefficients and Sqrt2Pi bit-identical after the calls

import (
	"fmt"
	"math"
	"strings"

	"github.com/tuneinsight/lattigo/v6/circuits/ckks/mod1"
	ckkspoly "github.com/tuneinsight/lattigo/v6/circuits/ckks/polynomial"
	"github.com/tuneinsight/lattigo/v6/core/rlwe"
	"github.com/tuneinsight/lattigo/v6/schemes/ckks"
	"github.com/tuneinsight/lattigo/v6/utils/bignum"
)

func c13Mod1Snapshot(p mod1.Parameters) string {
	var sb strings.Builder
	dump := func(pol *bignum.Polynomial) {
		if pol == nil {
			sb.WriteString("nil;")
			return
		}
		for _, cf := range pol.Coeffs {
			if cf == nil {
				sb.WriteString("-,")
				continue
			}
			sb.WriteString(cf[0].Text('p', 0) + "/" + cf[1].Text('p', 0) + ",")
		}
		sb.WriteString(";")
	}
	dump(&p.Mod1Poly)
	dump(p.Mod1InvPoly)
	fmt.Fprintf(&sb, "%x", math.Float64bits(p.Sqrt2Pi))
	return sb.String()
}

func c13U01(c *Ctx) float64 { return float64(c.rng.U64()>>11) / float64(uint64(1)<<53) }

func c13Mod1(c *Ctx) {
	// the parameters of circuits/ckks/mod1's tests, on a small ring
	params, err := ckks.NewParametersFromLiteral(ckks.ParametersLiteral{
		LogN:            c.Scale(7, 9),
		LogQ:            []int{55, 60, 60, 60, 60, 60, 60, 60, 60, 60, 60, 60, 60, 53},
		LogP:            []int{61, 61, 61, 61, 61},
		LogDefaultScale: 45,
	})
	if err != nil {
		panic(err)
	}
	kgen := rlwe.NewKeyGenerator(params)
	sk := kgen.GenSecretKeyNew()
	ecd := ckks.NewEncoder(params)
	enc := rlwe.NewEncryptor(params, sk)
	dec := rlwe.NewDecryptor(params, sk)
	eval := ckks.NewEvaluator(params, rlwe.NewMemEvaluationKeySet(kgen.GenRelinearizationKeyNew(sk)))

	lits := []mod1.ParametersLiteral{
		{LevelQ: 12, Mod1Type: mod1.CosDiscrete, LogMessageRatio: 8, K: 12, Mod1Degree: 30, DoubleAngle: 3, LogScale: 60},
	}
	if c.Thorough() {
		lits = append(lits,
			mod1.ParametersLiteral{LevelQ: 12, Mod1Type: mod1.SinContinuous, LogMessageRatio: 8, K: 14, Mod1Degree: 127, Mod1InvDegree: 7, LogScale: 60},
			mod1.ParametersLiteral{LevelQ: 12, Mod1Type: mod1.CosContinuous, LogMessageRatio: 4, K: 325, Mod1Degree: 177, DoubleAngle: 4, LogScale: 60})
	}
	// {2, 1}: a call with scaling 1 while the product of the earlier scalings is not 1
	seqs := [][]float64{{1, 2, 0.5, 1}, {2, 1}}
	if c.Thorough() {
		seqs = append(seqs, []float64{2, 1, 0.5}, []float64{1, 1}, []float64{0.25, 0.5, 2})
	}
	for li, lit := range lits {
		for si, seq := range seqs {
			evm, err := mod1.NewParametersFromLiteral(params, lit)
			if err != nil {
				panic(err)
			}
			one := mod1.NewEvaluator(eval, ckkspoly.NewEvaluator(params, eval), evm) // THE evaluator of the sequence
			before := c13Mod1Snapshot(one.Parameters)
			for step, scaling := range seq {
				tag := fmt.Sprintf("type=%d seq=%d step=%d scaling=%g", int(lit.Mod1Type), si, step, scaling)
				// input: integers * Q + small message, as in the package's tests
				K := evm.K - 1
				Q := evm.QDiff * evm.MessageRatio()
				values := make([]float64, params.MaxSlots())
				for i := range values {
					values[i] = math.Round((2*c13U01(c)-1)*K)*Q + (2*c13U01(c) - 1)
				}
				values[0] = K*Q + 0.5
				pt := ckks.NewPlaintext(params, params.MaxLevel())
				if err := ecd.Encode(values, pt); err != nil {
					panic(err)
				}
				ct, err := enc.EncryptNew(pt)
				if err != nil {
					panic(err)
				}
				sc := rlwe.NewScale(math.Exp2(math.Round(math.Log2(float64(params.Q()[0]) / evm.MessageRatio()))))
				sc = sc.Div(ct.Scale)
				if err := eval.ScaleUp(ct, rlwe.NewScale(math.Round(sc.Float64())), ct); err != nil {
					panic(err)
				}
				sc = evm.ScalingFactor().Div(ct.Scale)
				sc = sc.Div(rlwe.NewScale(evm.MessageRatio()))
				if err := eval.ScaleUp(ct, rlwe.NewScale(math.Round(sc.Float64())), ct); err != nil {
					panic(err)
				}
				if err := eval.Mul(ct, 1/(evm.K*evm.QDiff), ct); err != nil {
					panic(err)
				}
				if err := eval.Rescale(ct, ct); err != nil {
					panic(err)
				}
				run := func(ev *mod1.Evaluator, in *rlwe.Ciphertext) ([]float64, string) {
					var out *rlwe.Ciphertext
					st := Try(func() string {
						var e error
						if scaling == 1 && step%2 == 0 {
							out, e = ev.EvaluateNew(in)
						} else {
							out, e = ev.EvaluateAndScaleNew(in, complex(scaling, 0))
						}
						if e != nil {
							return "err"
						}
						return "ok"
					})
					if st != "ok" {
						return nil, st
					}
					got := make([]float64, params.MaxSlots())
					if err := ecd.Decode(dec.DecryptNew(out), got); err != nil {
						panic(err)
					}
					return got, "ok"
				}
				gotOne, st1 := run(one, ct.CopyNew())
				evmFresh, err := mod1.NewParametersFromLiteral(params, lit)
				if err != nil {
					panic(err)
				}
				fresh := mod1.NewEvaluator(eval, ckkspoly.NewEvaluator(params, eval), evmFresh)
				gotFresh, st2 := run(fresh, ct.CopyNew())
				c.Count(fmt.Sprintf("mod1:type%d:%s", int(lit.Mod1Type), st1))
				d := ""
				maxd := 0.0
				if st1 != "ok" || st2 != "ok" {
					d = fmt.Sprintf("status one=%s fresh=%s", st1, st2)
				} else {
					for i := range gotOne {
						if e := math.Abs(gotOne[i] - gotFresh[i]); e > maxd || math.IsNaN(e) {
							maxd = e
						}
					}
					if !(maxd < math.Exp2(-20)) {
						d = fmt.Sprintf("max |one - fresh| = %g", maxd)
					}
				}
				c.Probe("mod1_same_as_fresh", tag, "C13-mod1-evaluator-state", d)
				d = ""
				if st1 == "ok" {
					maxe := 0.0
					for i := range gotOne {
						x := values[i] / evm.MessageRatio() / evm.QDiff
						x = math.Sin(2 * math.Pi * x)
						if lit.Mod1InvDegree > 0 {
							x = math.Asin(x)
						}
						x = x * evm.MessageRatio() * evm.QDiff / (2 * math.Pi) * scaling
						if e := math.Abs(gotOne[i] - x); e > maxe || math.IsNaN(e) {
							maxe = e
						}
					}
					if !(maxe < math.Exp2(-10)*math.Max(1, scaling)) {
						d = fmt.Sprintf("max error %g against scaling*(x mod 1)", maxe)
					}
				}
				c.Probe("mod1_value", tag, "C13-mod1-value", d)
			}
			d := ""
			if after := c13Mod1Snapshot(one.Parameters); after != before {
				d = fmt.Sprintf("Mod1Poly/Mod1InvPoly/Sqrt2Pi of the evaluator changed over the calls %v", seq)
			}
			c.Probe("mod1_params_unchanged", fmt.Sprintf("type=%d seq=%d", int(lit.Mod1Type), si), "C13-mod1-evaluator-state", d)
			_ = li
		}
	}
}

// c13Mod1Sweep: every Mod1Type x DoubleAngle in {0,1,2,3} x arcsine on/off x output scaling, through
// mod1.Evaluator.EvaluateNew / EvaluateAndScaleNew on the stated domain ([-K+1, K-1]*Q + message, endpoints
// included).  For SinContinuous DoubleAngle is documented as ignored: same result and depth as DoubleAngle = 0.
//   mod1_sweep_value   scaling * (x mod 1) (through sin, and asin with the arcsine polynomial) within 2^-10
//   mod1_sweep_depth   levels consumed = ParametersLiteral.Depth()
//   mod1_sweep_scale   output scale = input scale
func c13Mod1Sweep(c *Ctx) {
	params, err := ckks.NewParametersFromLiteral(ckks.ParametersLiteral{
		LogN:            c.Scale(7, 8),
		LogQ:            []int{55, 60, 60, 60, 60, 60, 60, 60, 60, 60, 60, 60, 60, 53},
		LogP:            []int{61, 61, 61, 61, 61},
		LogDefaultScale: 45,
	})
	if err != nil {
		panic(err)
	}
	kgen := rlwe.NewKeyGenerator(params)
	sk := kgen.GenSecretKeyNew()
	ecd := ckks.NewEncoder(params)
	enc := rlwe.NewEncryptor(params, sk)
	dec := rlwe.NewDecryptor(params, sk)
	eval := ckks.NewEvaluator(params, rlwe.NewMemEvaluationKeySet(kgen.GenRelinearizationKeyNew(sk)))
	scalings := []float64{1, 2}
	if c.Thorough() {
		scalings = []float64{1, 2, 0.5, 3}
	}
	for _, typ := range []mod1.Type{mod1.SinContinuous, mod1.CosDiscrete, mod1.CosContinuous} {
		for da := 0; da <= 3; da++ {
			for ii, invDeg := range []int{0, 7, 0} {
				// the third pass: an EVEN degree of the interpolant (an odd number of Chebyshev nodes)
				deg := 63
				if ii == 2 {
					deg = 62
					if !c.Thorough() && da%2 == 1 {
						continue
					}
				}
				lit := mod1.ParametersLiteral{LevelQ: 12, Mod1Type: typ, LogMessageRatio: 8, K: 4, Mod1Degree: deg,
					DoubleAngle: da, Mod1InvDegree: invDeg, LogScale: 60}
				evm, err := mod1.NewParametersFromLiteral(params, lit)
				if err != nil {
					panic(err)
				}
				for si, scaling := range scalings {
					if !c.Thorough() && (int(typ)+da+si+invDeg)%2 == 1 && scaling != 1 {
						continue
					}
					tag := fmt.Sprintf("type=%d da=%d inv=%d scaling=%g deg=%d", int(typ), da, invDeg, scaling, deg)
					K := evm.K - 1
					Q := evm.QDiff * evm.MessageRatio()
					values := make([]float64, params.MaxSlots())
					for i := range values {
						values[i] = math.Round((2*c13U01(c)-1)*K)*Q + (2*c13U01(c) - 1)
					}
					values[0], values[1], values[2], values[3] = K*Q+0.5, -K*Q-0.5, K*Q+1, -K*Q-1
					pt := ckks.NewPlaintext(params, params.MaxLevel())
					if err := ecd.Encode(values, pt); err != nil {
						panic(err)
					}
					ct, err := enc.EncryptNew(pt)
					if err != nil {
						panic(err)
					}
					sc := rlwe.NewScale(math.Exp2(math.Round(math.Log2(float64(params.Q()[0]) / evm.MessageRatio()))))
					sc = sc.Div(ct.Scale)
					if err := eval.ScaleUp(ct, rlwe.NewScale(math.Round(sc.Float64())), ct); err != nil {
						panic(err)
					}
					sc = evm.ScalingFactor().Div(ct.Scale)
					sc = sc.Div(rlwe.NewScale(evm.MessageRatio()))
					if err := eval.ScaleUp(ct, rlwe.NewScale(math.Round(sc.Float64())), ct); err != nil {
						panic(err)
					}
					if err := eval.Mul(ct, 1/(evm.K*evm.QDiff), ct); err != nil {
						panic(err)
					}
					if err := eval.Rescale(ct, ct); err != nil {
						panic(err)
					}
					inScale := ct.Scale
					ev := mod1.NewEvaluator(eval, ckkspoly.NewEvaluator(params, eval), evm)
					var out *rlwe.Ciphertext
					st := Try(func() string {
						var e error
						if scaling == 1 {
							out, e = ev.EvaluateNew(ct)
						} else {
							out, e = ev.EvaluateAndScaleNew(ct, complex(scaling, 0))
						}
						if e != nil {
							return "err"
						}
						return "ok"
					})
					c.Count(fmt.Sprintf("mod1sweep:type%d:%s", int(typ), st))
					d := ""
					if st != "ok" {
						d = "status=" + st
					} else {
						got := make([]float64, params.MaxSlots())
						if err := ecd.Decode(dec.DecryptNew(out), got); err != nil {
							panic(err)
						}
						maxe := 0.0
						for i := range got {
							x := values[i] / evm.MessageRatio() / evm.QDiff
							x = math.Sin(2 * math.Pi * x)
							if invDeg > 0 {
								x = math.Asin(x)
							}
							x = x * evm.MessageRatio() * evm.QDiff / (2 * math.Pi) * scaling
							if e := math.Abs(got[i] - x); e > maxe || math.IsNaN(e) {
								maxe = e
							}
						}
						if !(maxe < math.Exp2(-10)*math.Max(1, scaling)) {
							d = fmt.Sprintf("max error %g against scaling*(x mod 1)", maxe)
						}
					}
					c.Probe("mod1_sweep_value", tag, "C13-mod1-value", d)
					if st == "ok" {
						d = ""
						if used := lit.LevelQ - out.Level(); used != lit.Depth() {
							d = fmt.Sprintf("%d levels consumed, Depth() = %d", used, lit.Depth())
						}
						c.Probe("mod1_sweep_depth", tag, "C13-mod1-depth", d)
						d = ""
						if out.Scale.Cmp(inScale) != 0 {
							d = "output scale differs from the input scale"
						}
						c.Probe("mod1_sweep_scale", tag, "C13-mod1-scale", d)
					}
				}
			}
		}
	}
}
