package main

// C08: abstract value trees of serializable objects (the harness side of `Codec.Val`) and
// the renderers lattigo object -> tree.  The printed syntax is the one Driver/C08.lean
// parses and prints:  `_` unit, decimal number, `x<hex>` bytes, `(a,b,c)` right-nested
// pair, `[a,b]` list, `~` nil optional, `?v` present optional.

import (
	"math/big"
	"sort"
	"strconv"
	"strings"

	"github.com/tuneinsight/lattigo/v6/circuits/ckks/bootstrapping"
	"github.com/tuneinsight/lattigo/v6/circuits/common/polynomial"
	"github.com/tuneinsight/lattigo/v6/core/rgsw"
	"github.com/tuneinsight/lattigo/v6/core/rlwe"
	"github.com/tuneinsight/lattigo/v6/multiparty"
	"github.com/tuneinsight/lattigo/v6/ring"
	"github.com/tuneinsight/lattigo/v6/ring/ringqp"
	"github.com/tuneinsight/lattigo/v6/utils/structs"
)

type c08GvKind int

const (
	c08GvUnit c08GvKind = iota
	c08GvNum
	c08GvBytes
	c08GvPair
	c08GvList
	c08GvNone
	c08GvSome
	c08GvInt // signed field, value in n as uint64(int64)
)

type c08Gv struct {
	k    c08GvKind
	n    uint64
	b    []byte
	a, c *c08Gv // pair components / some payload in a
	l    []*c08Gv
}

func c08VNum(n uint64) *c08Gv     { return &c08Gv{k: c08GvNum, n: n} }
func c08VBytes(b []byte) *c08Gv   { return &c08Gv{k: c08GvBytes, b: b} }
func c08VPair(a, b *c08Gv) *c08Gv { return &c08Gv{k: c08GvPair, a: a, c: b} }
func c08VList(l []*c08Gv) *c08Gv  { return &c08Gv{k: c08GvList, l: l} }
func c08VNone() *c08Gv            { return &c08Gv{k: c08GvNone} }
func c08VSome(a *c08Gv) *c08Gv    { return &c08Gv{k: c08GvSome, a: a} }
func c08VBool(b bool) *c08Gv      { return c08VNum(c08B2u(b)) }
func c08VInt(z int64) *c08Gv      { return &c08Gv{k: c08GvInt, n: uint64(z)} }
func c08VTuple(xs ...*c08Gv) *c08Gv { // right-nested
	if len(xs) == 1 {
		return xs[0]
	}
	return c08VPair(xs[0], c08VTuple(xs[1:]...))
}
func c08B2u(b bool) uint64 {
	if b {
		return 1
	}
	return 0
}

func (v *c08Gv) write(sb *strings.Builder) {
	switch v.k {
	case c08GvUnit:
		sb.WriteByte('_')
	case c08GvNum:
		sb.WriteString(U(v.n))
	case c08GvBytes:
		sb.WriteByte('x')
		if len(v.b) > 0 {
			sb.WriteString(Hex(v.b))
		}
	case c08GvPair:
		sb.WriteByte('(')
		v.a.write(sb)
		t := v.c
		for t.k == c08GvPair {
			sb.WriteByte(',')
			t.a.write(sb)
			t = t.c
		}
		sb.WriteByte(',')
		t.write(sb)
		sb.WriteByte(')')
	case c08GvList:
		sb.WriteByte('[')
		for i, x := range v.l {
			if i > 0 {
				sb.WriteByte(',')
			}
			x.write(sb)
		}
		sb.WriteByte(']')
	case c08GvNone:
		sb.WriteByte('~')
	case c08GvInt:
		sb.WriteByte('i')
		sb.WriteString(strconv.FormatInt(int64(v.n), 10))
	case c08GvSome:
		sb.WriteByte('?')
		v.a.write(sb)
	}
}

func (v *c08Gv) String() string {
	var sb strings.Builder
	v.write(&sb)
	return sb.String()
}

// ---- renderers ----

func c08RVecU64(v []uint64) *c08Gv {
	l := make([]*c08Gv, len(v))
	for i, x := range v {
		l[i] = c08VNum(x)
	}
	return c08VList(l)
}

func c08RPoly(p ring.Poly) *c08Gv {
	l := make([]*c08Gv, len(p.Coeffs))
	for i := range p.Coeffs {
		l[i] = c08RVecU64(p.Coeffs[i])
	}
	return c08VList(l)
}

func c08RPolyQP(p ringqp.Poly) *c08Gv { return c08VPair(c08RPoly(p.Q), c08RPoly(p.P)) }

// c08ScaleTexts gives the two number texts of a Scale the way Scale.MarshalJSON prints them
// (math/big decimal text is outside the model: an opaque 45-byte block).
func c08ScaleTexts(s rlwe.Scale) (string, string) {
	val := s.Value.Text('e', rlwe.ScalePrecisionLog10)
	var mod string
	if s.Mod != nil {
		mod = new(big.Float).SetPrec(rlwe.ScalePrecision).SetInt(s.Mod).Text('e', rlwe.ScalePrecisionLog10)
	} else {
		mod = "0." + strings.Repeat("0", rlwe.ScalePrecisionLog10) + "e+00"
	}
	return val, mod
}

func c08RScale(s rlwe.Scale) *c08Gv {
	a, b := c08ScaleTexts(s)
	return c08VPair(c08VBytes([]byte(a)), c08VBytes([]byte(b)))
}

func c08RPtMeta(m rlwe.PlaintextMetaData) *c08Gv {
	return c08VTuple(c08RScale(m.Scale), c08VBool(m.IsBatched), c08VBool(m.IsBitReversed),
		c08VInt(int64(m.LogDimensions.Rows)), c08VInt(int64(m.LogDimensions.Cols)))
}

func c08RCtMeta(m rlwe.CiphertextMetaData) *c08Gv {
	return c08VPair(c08VBool(m.IsNTT), c08VBool(m.IsMontgomery))
}

func c08RMeta(m rlwe.MetaData) *c08Gv {
	return c08VPair(c08RPtMeta(m.PlaintextMetaData), c08RCtMeta(m.CiphertextMetaData))
}

func c08ROptMeta(m *rlwe.MetaData) *c08Gv {
	if m == nil {
		return c08VNone()
	}
	return c08VSome(c08RMeta(*m))
}

func c08RElement(e *rlwe.Element[ring.Poly]) *c08Gv {
	l := make([]*c08Gv, len(e.Value))
	for i := range e.Value {
		l[i] = c08RPoly(e.Value[i])
	}
	return c08VPair(c08ROptMeta(e.MetaData), c08VList(l))
}

func c08RElementQP(e *rlwe.Element[ringqp.Poly]) *c08Gv {
	l := make([]*c08Gv, len(e.Value))
	for i := range e.Value {
		l[i] = c08RPolyQP(e.Value[i])
	}
	return c08VPair(c08ROptMeta(e.MetaData), c08VList(l))
}

func c08RVectorQP(v rlwe.VectorQP) *c08Gv {
	l := make([]*c08Gv, len(v))
	for i := range v {
		l[i] = c08RPolyQP(v[i])
	}
	return c08VList(l)
}

func c08RGadget(g *rlwe.GadgetCiphertext) *c08Gv {
	rows := make([]*c08Gv, len(g.Value))
	for i := range g.Value {
		cols := make([]*c08Gv, len(g.Value[i]))
		for j := range g.Value[i] {
			cols[j] = c08RVectorQP(g.Value[i][j])
		}
		rows[i] = c08VList(cols)
	}
	return c08VPair(c08VNum(uint64(g.BaseTwoDecomposition)), c08VList(rows))
}

func c08REvk(k *rlwe.EvaluationKey) *c08Gv {
	seed := c08VNone()
	if k.Seed != nil {
		seed = c08VSome(c08VBytes(append([]byte(nil), k.Seed[:]...)))
	}
	return c08VPair(c08RGadget(&k.GadgetCiphertext), seed)
}

func c08ROptEvk(k *rlwe.EvaluationKey) *c08Gv {
	if k == nil {
		return c08VNone()
	}
	return c08VSome(c08REvk(k))
}

func c08RGaloisKey(k *rlwe.GaloisKey) *c08Gv {
	return c08VTuple(c08VNum(k.GaloisElement), c08VNum(k.NthRoot), c08REvk(&k.EvaluationKey))
}

func c08REvkSet(s *rlwe.MemEvaluationKeySet) *c08Gv {
	rlk := c08VNone()
	if s.RelinearizationKey != nil {
		rlk = c08VSome(c08REvk(&s.RelinearizationKey.EvaluationKey))
	}
	gks := c08VNone()
	if s.GaloisKeys != nil {
		keys := make([]uint64, 0, len(s.GaloisKeys))
		for k := range s.GaloisKeys {
			keys = append(keys, k)
		}
		sort.Slice(keys, func(i, j int) bool { return keys[i] < keys[j] })
		l := make([]*c08Gv, len(keys))
		for i, k := range keys {
			l[i] = c08VPair(c08VNum(k), c08RGaloisKey(s.GaloisKeys[k]))
		}
		gks = c08VSome(c08VList(l))
	}
	return c08VPair(rlk, gks)
}

func c08RRGSW(c *rgsw.Ciphertext) *c08Gv {
	return c08VPair(c08RGadget(&c.Value[0]), c08RGadget(&c.Value[1]))
}

func c08RPowerBasis(p *polynomial.PowerBasis) *c08Gv {
	keys := make([]int, 0, len(p.Value))
	for k := range p.Value {
		keys = append(keys, k)
	}
	sort.Ints(keys)
	l := make([]*c08Gv, len(keys))
	for i, k := range keys {
		l[i] = c08VPair(c08VNum(uint64(k)), c08RElement(&p.Value[k].Element))
	}
	return c08VPair(c08VNum(uint64(uint8(p.Basis))), c08VList(l))
}

func c08RBtpKeys(b *bootstrapping.EvaluationKeys) *c08Gv {
	set := c08VNone()
	if b.MemEvaluationKeySet != nil {
		set = c08VSome(c08REvkSet(b.MemEvaluationKeySet))
	}
	return c08VTuple(c08ROptEvk(b.EvkN1ToN2), c08ROptEvk(b.EvkN2ToN1), c08ROptEvk(b.EvkRealToCmplx),
		c08ROptEvk(b.EvkCmplxToReal), c08ROptEvk(b.EvkDenseToSparse), c08ROptEvk(b.EvkSparseToDense), set)
}

func c08RBytesAsList(b []byte) *c08Gv {
	l := make([]*c08Gv, len(b))
	for i, x := range b {
		l[i] = c08VNum(uint64(x))
	}
	return c08VList(l)
}

// c08Render maps every object under test to its value tree.
func c08Render(o interface{}) *c08Gv {
	switch x := o.(type) {
	case *ring.Poly:
		return c08RPoly(*x)
	case *ringqp.Poly:
		return c08RPolyQP(*x)
	case *structs.Vector[uint64]:
		return c08RVecU64(*x)
	case *structs.Vector[uint32]:
		l := make([]*c08Gv, len(*x))
		for i, e := range *x {
			l[i] = c08VNum(uint64(e))
		}
		return c08VList(l)
	case *structs.Vector[uint16]:
		l := make([]*c08Gv, len(*x))
		for i, e := range *x {
			l[i] = c08VNum(uint64(e))
		}
		return c08VList(l)
	case *structs.Vector[uint8]:
		l := make([]*c08Gv, len(*x))
		for i, e := range *x {
			l[i] = c08VNum(uint64(e))
		}
		return c08VList(l)
	case *structs.Matrix[uint64]:
		l := make([]*c08Gv, len(*x))
		for i := range *x {
			l[i] = c08RVecU64((*x)[i])
		}
		return c08VList(l)
	case *structs.Map[uint64, ring.Poly]:
		keys := make([]uint64, 0, len(*x))
		for k := range *x {
			keys = append(keys, k)
		}
		sort.Slice(keys, func(i, j int) bool { return keys[i] < keys[j] })
		l := make([]*c08Gv, len(keys))
		for i, k := range keys {
			l[i] = c08VPair(c08VNum(k), c08RPoly(*(*x)[k]))
		}
		return c08VList(l)
	case *rlwe.PlaintextMetaData:
		return c08RPtMeta(*x)
	case *rlwe.CiphertextMetaData:
		return c08RCtMeta(*x)
	case *rlwe.MetaData:
		return c08RMeta(*x)
	case *rlwe.Ciphertext:
		return c08RElement(&x.Element)
	case *rlwe.Plaintext:
		return c08RElement(&x.Element)
	case *rlwe.Element[ring.Poly]:
		return c08RElement(x)
	case *rlwe.Element[ringqp.Poly]:
		return c08RElementQP(x)
	case *rlwe.VectorQP:
		return c08RVectorQP(*x)
	case *rlwe.PublicKey:
		return c08RVectorQP(x.Value)
	case *rlwe.SecretKey:
		return c08RPolyQP(x.Value)
	case *rlwe.GadgetCiphertext:
		return c08RGadget(x)
	case *rlwe.EvaluationKey:
		return c08REvk(x)
	case *rlwe.RelinearizationKey:
		return c08REvk(&x.EvaluationKey)
	case *rlwe.GaloisKey:
		return c08RGaloisKey(x)
	case *rlwe.MemEvaluationKeySet:
		return c08REvkSet(x)
	case *rgsw.Ciphertext:
		return c08RRGSW(x)
	case *polynomial.PowerBasis:
		return c08RPowerBasis(x)
	case *bootstrapping.EvaluationKeys:
		return c08RBtpKeys(x)
	case *rlwe.Parameters:
		b, err := x.MarshalJSON()
		if err != nil {
			return c08VBytes([]byte("json-error"))
		}
		return c08RBytesAsList(b)
	case *multiparty.PublicKeyGenShare:
		return c08RPolyQP(x.Value)
	case *multiparty.EvaluationKeyGenShare:
		return c08RGadget(&x.GadgetCiphertext)
	case *multiparty.RelinearizationKeyGenShare:
		return c08RGadget(&x.GadgetCiphertext)
	case *multiparty.GaloisKeyGenShare:
		return c08VPair(c08VNum(x.GaloisElement), c08RGadget(&x.GadgetCiphertext))
	case *multiparty.KeySwitchShare:
		return c08RPoly(x.Value)
	case *multiparty.PublicKeySwitchShare:
		return c08RElement(&x.Element)
	case *multiparty.RefreshShare:
		return c08VTuple(c08RMeta(x.MetaData), c08RPoly(x.EncToShareShare.Value), c08RPoly(x.ShareToEncShare.Value))
	case *multiparty.ShamirSecretShare:
		return c08RPolyQP(x.Poly)
	}
	panic("c08Render: unknown type")
}
