package main

import (
	"github.com/tuneinsight/lattigo/v6/ring"
)

func init() { register("C01", genC01) }

func genC01(c *Ctx) {
	q := uint64(65537)
	qi := ring.GenMRedConstant(q)
	for i := 0; i < 10; i++ {
		x, y := c.rng.Below(q), c.rng.Below(q)
		c.Emit("mred "+U(x)+" "+U(y)+" "+U(q)+" "+U(qi), U(ring.MRed(x, y, q, qi)))
	}
}
