package main

import (
	"fmt"
	"math/big"
	"math/bits"

	"github.com/tuneinsight/lattigo/v6/ring"
)

func init() { register("C01", genC01) }

// ---- prime pool -------------------------------------------------------------------------

// primesFor returns NTT-friendly primes (≡ 1 mod nthRoot) of assorted bit sizes, smallest to 61.
func primesFor(nthRoot uint64, sizes []int) []uint64 {
	var out []uint64
	seen := map[uint64]bool{}
	for _, b := range sizes {
		if uint64(1)<<uint(b) <= nthRoot {
			continue
		}
		g := ring.NewNTTFriendlyPrimesGenerator(uint64(b), nthRoot)
		for k := 0; k < 2; k++ {
			var p uint64
			var err error
			if k == 0 {
				p, err = g.NextDownstreamPrime()
			} else {
				p, err = g.NextUpstreamPrime()
			}
			if err == nil && !seen[p] && bits.Len64(p) <= 61 {
				seen[p] = true
				out = append(out, p)
			}
		}
	}
	return out
}

var quickSizes = []int{8, 13, 20, 30, 31, 32, 33, 45, 55, 60, 61}
var thoroughSizes = []int{6, 7, 8, 9, 10, 12, 13, 16, 17, 20, 24, 28, 30, 31, 32, 33, 36, 40, 45, 50, 55, 58, 59, 60, 61}

// ---- coefficient patterns ---------------------------------------------------------------

var patNames = []string{"uniform", "zero", "max", "alt", "spike", "lowbits", "near"}

// patVec produces n values in [0, bound) following a boundary pattern.
func patVec(r *SplitMix, pat string, n int, bound uint64) []uint64 {
	v := make([]uint64, n)
	if bound == 0 {
		bound = 1
	}
	switch pat {
	case "uniform":
		for i := range v {
			v[i] = r.Below(bound)
		}
	case "zero":
	case "max":
		for i := range v {
			v[i] = bound - 1
		}
	case "alt":
		for i := range v {
			if i&1 == 0 {
				v[i] = bound - 1
			}
		}
	case "spike":
		v[r.Intn(n)] = bound - 1 - r.Below(2)%bound
	case "lowbits":
		for i := range v {
			v[i] = r.Below(4) % bound
		}
	case "near":
		for i := range v {
			v[i] = (bound - 1 - r.Below(4)%bound)
		}
	}
	return v
}

func (c *Ctx) pat() string { return patNames[c.rng.Intn(len(patNames))] }

// bound classes: reduced, lazy 2q, 4q, 8q-ish, full word
func (c *Ctx) boundFor(q uint64) (string, uint64) {
	switch c.rng.Intn(6) {
	case 0, 1:
		return "q", q
	case 2:
		return "2q", 2 * q
	case 3:
		return "4q", 4 * q
	case 4:
		if q < 1<<60 {
			return "8q", 8 * q
		}
		return "2q", 2 * q
	default:
		return "W", ^uint64(0)
	}
}

// ---- SubRing method table ---------------------------------------------------------------

type vecOp struct {
	name string
	f    func(s *ring.SubRing, p1, p2, p3 []uint64, s0, s1 uint64)
}

var vecOps = []vecOp{
	{"Add", func(s *ring.SubRing, p1, p2, p3 []uint64, _, _ uint64) { s.Add(p1, p2, p3) }},
	{"AddLazy", func(s *ring.SubRing, p1, p2, p3 []uint64, _, _ uint64) { s.AddLazy(p1, p2, p3) }},
	{"Sub", func(s *ring.SubRing, p1, p2, p3 []uint64, _, _ uint64) { s.Sub(p1, p2, p3) }},
	{"SubLazy", func(s *ring.SubRing, p1, p2, p3 []uint64, _, _ uint64) { s.SubLazy(p1, p2, p3) }},
	{"Neg", func(s *ring.SubRing, p1, _, p3 []uint64, _, _ uint64) { s.Neg(p1, p3) }},
	{"Reduce", func(s *ring.SubRing, p1, _, p3 []uint64, _, _ uint64) { s.Reduce(p1, p3) }},
	{"ReduceLazy", func(s *ring.SubRing, p1, _, p3 []uint64, _, _ uint64) { s.ReduceLazy(p1, p3) }},
	{"MulCoeffsLazy", func(s *ring.SubRing, p1, p2, p3 []uint64, _, _ uint64) { s.MulCoeffsLazy(p1, p2, p3) }},
	{"MulCoeffsLazyThenAddLazy", func(s *ring.SubRing, p1, p2, p3 []uint64, _, _ uint64) { s.MulCoeffsLazyThenAddLazy(p1, p2, p3) }},
	{"MulCoeffsBarrett", func(s *ring.SubRing, p1, p2, p3 []uint64, _, _ uint64) { s.MulCoeffsBarrett(p1, p2, p3) }},
	{"MulCoeffsBarrettLazy", func(s *ring.SubRing, p1, p2, p3 []uint64, _, _ uint64) { s.MulCoeffsBarrettLazy(p1, p2, p3) }},
	{"MulCoeffsBarrettThenAdd", func(s *ring.SubRing, p1, p2, p3 []uint64, _, _ uint64) { s.MulCoeffsBarrettThenAdd(p1, p2, p3) }},
	{"MulCoeffsBarrettThenAddLazy", func(s *ring.SubRing, p1, p2, p3 []uint64, _, _ uint64) { s.MulCoeffsBarrettThenAddLazy(p1, p2, p3) }},
	{"MulCoeffsMontgomery", func(s *ring.SubRing, p1, p2, p3 []uint64, _, _ uint64) { s.MulCoeffsMontgomery(p1, p2, p3) }},
	{"MulCoeffsMontgomeryLazy", func(s *ring.SubRing, p1, p2, p3 []uint64, _, _ uint64) { s.MulCoeffsMontgomeryLazy(p1, p2, p3) }},
	{"MulCoeffsMontgomeryThenAdd", func(s *ring.SubRing, p1, p2, p3 []uint64, _, _ uint64) { s.MulCoeffsMontgomeryThenAdd(p1, p2, p3) }},
	{"MulCoeffsMontgomeryThenAddLazy", func(s *ring.SubRing, p1, p2, p3 []uint64, _, _ uint64) { s.MulCoeffsMontgomeryThenAddLazy(p1, p2, p3) }},
	{"MulCoeffsMontgomeryLazyThenAddLazy", func(s *ring.SubRing, p1, p2, p3 []uint64, _, _ uint64) { s.MulCoeffsMontgomeryLazyThenAddLazy(p1, p2, p3) }},
	{"MulCoeffsMontgomeryThenSub", func(s *ring.SubRing, p1, p2, p3 []uint64, _, _ uint64) { s.MulCoeffsMontgomeryThenSub(p1, p2, p3) }},
	{"MulCoeffsMontgomeryThenSubLazy", func(s *ring.SubRing, p1, p2, p3 []uint64, _, _ uint64) { s.MulCoeffsMontgomeryThenSubLazy(p1, p2, p3) }},
	{"MulCoeffsMontgomeryLazyThenSubLazy", func(s *ring.SubRing, p1, p2, p3 []uint64, _, _ uint64) { s.MulCoeffsMontgomeryLazyThenSubLazy(p1, p2, p3) }},
	{"MulCoeffsMontgomeryLazyThenNeg", func(s *ring.SubRing, p1, p2, p3 []uint64, _, _ uint64) { s.MulCoeffsMontgomeryLazyThenNeg(p1, p2, p3) }},
	{"AddLazyThenMulScalarMontgomery", func(s *ring.SubRing, p1, p2, p3 []uint64, s0, _ uint64) { s.AddLazyThenMulScalarMontgomery(p1, p2, s0, p3) }},
	{"AddScalarLazyThenMulScalarMontgomery", func(s *ring.SubRing, p1, _, p3 []uint64, s0, s1 uint64) { s.AddScalarLazyThenMulScalarMontgomery(p1, s0, s1, p3) }},
	{"AddScalar", func(s *ring.SubRing, p1, _, p3 []uint64, s0, _ uint64) { s.AddScalar(p1, s0, p3) }},
	{"AddScalarLazy", func(s *ring.SubRing, p1, _, p3 []uint64, s0, _ uint64) { s.AddScalarLazy(p1, s0, p3) }},
	{"AddScalarLazyThenNegTwoModulusLazy", func(s *ring.SubRing, p1, _, p3 []uint64, s0, _ uint64) { s.AddScalarLazyThenNegTwoModulusLazy(p1, s0, p3) }},
	{"SubScalar", func(s *ring.SubRing, p1, _, p3 []uint64, s0, _ uint64) { s.SubScalar(p1, s0, p3) }},
	{"MulScalarMontgomery", func(s *ring.SubRing, p1, _, p3 []uint64, s0, _ uint64) { s.MulScalarMontgomery(p1, s0, p3) }},
	{"MulScalarMontgomeryLazy", func(s *ring.SubRing, p1, _, p3 []uint64, s0, _ uint64) { s.MulScalarMontgomeryLazy(p1, s0, p3) }},
	{"MulScalarMontgomeryThenAdd", func(s *ring.SubRing, p1, _, p3 []uint64, s0, _ uint64) { s.MulScalarMontgomeryThenAdd(p1, s0, p3) }},
	{"MulScalarMontgomeryThenAddScalar", func(s *ring.SubRing, p1, _, p3 []uint64, s0, s1 uint64) { s.MulScalarMontgomeryThenAddScalar(p1, s0, s1, p3) }},
	{"SubThenMulScalarMontgomeryTwoModulus", func(s *ring.SubRing, p1, p2, p3 []uint64, s0, _ uint64) { s.SubThenMulScalarMontgomeryTwoModulus(p1, p2, s0, p3) }},
	{"MForm", func(s *ring.SubRing, p1, _, p3 []uint64, _, _ uint64) { s.MForm(p1, p3) }},
	{"MFormLazy", func(s *ring.SubRing, p1, _, p3 []uint64, _, _ uint64) { s.MFormLazy(p1, p3) }},
	{"IMForm", func(s *ring.SubRing, p1, _, p3 []uint64, _, _ uint64) { s.IMForm(p1, p3) }},
	{"ZeroVec", func(_ *ring.SubRing, p1, _, p3 []uint64, _, _ uint64) { copy(p3, p1); ring.ZeroVec(p3) }},
	{"MaskVec", func(_ *ring.SubRing, p1, _, p3 []uint64, s0, s1 uint64) { ring.MaskVec(p1, int(s0), s1, p3) }},
}

// ---- reference (big.Int) for probes -------------------------------------------------------

func negacyclicRef(a, b []uint64, q uint64) []uint64 {
	n := len(a)
	Q := new(big.Int).SetUint64(q)
	out := make([]uint64, n)
	acc := make([]*big.Int, n)
	for i := range acc {
		acc[i] = new(big.Int)
	}
	t := new(big.Int)
	for i := 0; i < n; i++ {
		if a[i] == 0 {
			continue
		}
		ai := new(big.Int).SetUint64(a[i])
		for j := 0; j < n; j++ {
			t.Mul(ai, new(big.Int).SetUint64(b[j]))
			if i+j < n {
				acc[i+j].Add(acc[i+j], t)
			} else {
				acc[i+j-n].Sub(acc[i+j-n], t)
			}
		}
	}
	for i := range acc {
		acc[i].Mod(acc[i], Q)
		out[i] = acc[i].Uint64()
	}
	return out
}

func eqVec(a, b []uint64) bool {
	if len(a) != len(b) {
		return false
	}
	for i := range a {
		if a[i] != b[i] {
			return false
		}
	}
	return true
}

func maxVec(a []uint64) uint64 {
	var m uint64
	for _, x := range a {
		if x > m {
			m = x
		}
	}
	return m
}

// ---- generator ------------------------------------------------------------------------------

func genC01(c *Ctx) {
	probesOnly := probesOnly()
	r := c.rng
	sizes := quickSizes
	if c.Thorough() {
		sizes = thoroughSizes
	}

	// (1) word level: ring.MRed … against the regenerated definitions
	if !probesOnly {
		for _, q := range primesFor(32, sizes) {
			qi := ring.GenMRedConstant(q)
			br := ring.GenBRedConstant(q)
			c.Emit(fmt.Sprintf("w genmred %d", q), U(qi))
			c.Emit(fmt.Sprintf("w genbred %d", q), U(br[0])+","+U(br[1]))
			c.Count("word:prime-bits-" + I(bits.Len64(q)))
			edge := []uint64{0, 1, 2, q - 1, q, q + 1, 2*q - 1, 2 * q, 4*q - 1, 1 << 63, ^uint64(0), ^uint64(0) - 1}
			n := c.Scale(24, 200)
			for i := 0; i < n; i++ {
				var x, y uint64
				switch r.Intn(4) {
				case 0:
					x, y = r.Below(q), r.Below(q)
				case 1:
					x, y = edge[r.Intn(len(edge))], edge[r.Intn(len(edge))]
				case 2:
					x, y = r.U64(), r.Below(q)
				default:
					x, y = r.U64(), r.U64()
				}
				c.Emit(fmt.Sprintf("w mred %d %d %d %d", x, y, q, qi), U(ring.MRed(x, y, q, qi)))
				c.Emit(fmt.Sprintf("w mredlazy %d %d %d %d", x, y, q, qi), U(ring.MRedLazy(x, y, q, qi)))
				c.Emit(fmt.Sprintf("w bred %d %d %d", x, y, q), U(ring.BRed(x, y, q, br)))
				c.Emit(fmt.Sprintf("w bredlazy %d %d %d", x, y, q), U(ring.BRedLazy(x, y, q, br)))
				c.Emit(fmt.Sprintf("w bredadd %d %d", x, q), U(ring.BRedAdd(x, q, br)))
				c.Emit(fmt.Sprintf("w bredaddlazy %d %d", x, q), U(ring.BRedAddLazy(x, q, br)))
				c.Emit(fmt.Sprintf("w mform %d %d", x, q), U(ring.MForm(x, q, br)))
				c.Emit(fmt.Sprintf("w mformlazy %d %d", x, q), U(ring.MFormLazy(x, q, br)))
				c.Emit(fmt.Sprintf("w imform %d %d %d", x, q, qi), U(ring.IMForm(x, q, qi)))
				c.Emit(fmt.Sprintf("w imformlazy %d %d %d", x, q, qi), U(ring.IMFormLazy(x, q, qi)))
				c.Emit(fmt.Sprintf("w cred %d %d", x, q), U(ring.CRed(x, q)))
			}
		}
	}

	// (2) SubRing level
	ns := []int{8, 16, 32, 64}
	if c.Thorough() {
		ns = []int{8, 16, 32, 64, 128, 256, 1024, 4096}
	}
	for _, N := range ns {
		for _, ci := range []bool{false, true} {
			nthRoot := uint64(2 * N)
			if ci {
				nthRoot = uint64(4 * N)
			}
			primes := primesFor(nthRoot, sizes)
			if N >= 1024 && len(primes) > 6 {
				primes = append(primes[:3], primes[len(primes)-3:]...)
			}
			for _, q := range primes {
				var rg *ring.Ring
				var err error
				if ci {
					rg, err = ring.NewRingConjugateInvariant(N, []uint64{q})
				} else {
					rg, err = ring.NewRing(N, []uint64{q})
				}
				if err != nil {
					c.Count("ring-error")
					continue
				}
				s := rg.SubRings[0]
				kind := "std"
				if ci {
					kind = "ci"
				}
				c.Count(fmt.Sprintf("subring:%s:N=%d", kind, N))
				hdr := fmt.Sprintf("%d %d %d %d", N, q, nthRoot, s.PrimitiveRoot)
				if !probesOnly {
					if N <= 256 {
						c.Emit("tables "+hdr, Vec(s.RootsForward)+"|"+Vec(s.RootsBackward)+"|"+U(s.NInv)+"|"+U(s.MRedConstant)+"|"+U(s.BRedConstant[0])+","+U(s.BRedConstant[1]))
					}
					// vector kernels (once per prime for the standard ring)
					if !ci && N <= 64 {
						reps := c.Scale(1, 3)
						for _, op := range vecOps {
							for k := 0; k < reps; k++ {
								_, b1 := c.boundFor(q)
								_, b2 := c.boundFor(q)
								_, b3 := c.boundFor(q)
								p1 := patVec(r, c.pat(), N, b1)
								p2 := patVec(r, c.pat(), N, b2)
								p3 := patVec(r, c.pat(), N, b3)
								s0, s1 := r.Below(q), r.Below(q)
								if op.name == "MaskVec" {
									s0 = uint64(r.Intn(64))
									s1 = (uint64(1) << uint(1+r.Intn(32))) - 1
								} else if r.Intn(4) == 0 {
									s0 = r.U64()
								}
								line := fmt.Sprintf("vec %s %d %d %d %s %s %s", op.name, q, s0, s1, Vec(p1), Vec(p2), Vec(p3))
								out := append([]uint64(nil), p3...)
								op.f(s, p1, p2, out, s0, s1)
								c.Emit(line, Vec(out))
								c.Count("vec:" + op.name)
							}
						}
					}
					// NTT, all four entry points, lazy outputs compared as stored
					reps := c.Scale(3, 8)
					if N >= 1024 {
						reps = 2
					}
					for k := 0; k < reps; k++ {
						bname, b := "q", q
						if r.Intn(3) == 0 {
							bname, b = "2q", 2*q
						}
						in := patVec(r, c.pat(), N, b)
						out := make([]uint64, N)
						s.NTT(in, out)
						c.Emit(fmt.Sprintf("ntt %s %s %s", kind, hdr, Vec(in)), Vec(out))
						s.NTTLazy(in, out)
						c.Emit(fmt.Sprintf("ntt %slazy %s %s", kind, hdr, Vec(in)), Vec(out))
						s.INTT(in, out)
						c.Emit(fmt.Sprintf("ntt i%s %s %s", kind, hdr, Vec(in)), Vec(out))
						s.INTTLazy(in, out)
						c.Emit(fmt.Sprintf("ntt i%slazy %s %s", kind, hdr, Vec(in)), Vec(out))
						c.Count("ntt:" + kind + ":in<" + bname)
					}
				}
				// probes: the property's own predicates on the real code
				if !ci && N <= 64 {
					for k := 0; k < c.Scale(2, 8); k++ {
						probeVecRefs(c, s, N)
					}
				}
				for k := 0; k < c.Scale(2, 6); k++ {
					pat := c.pat()
					a := patVec(r, pat, N, q)
					t1 := make([]uint64, N)
					t2 := make([]uint64, N)
					s.NTT(a, t1)
					s.INTT(t1, t2)
					d := ""
					if !eqVec(a, t2) {
						d = "INTT(NTT(a))!=a"
					}
					c.Probe("intt_ntt", fmt.Sprintf("%s %s %s", kind, hdr, Vec(a)), "C01/"+kind+"/INTT(NTT(a))!=a", d)
					// documented lazy output ranges
					s.NTTLazy(a, t1)
					d = ""
					if m := maxVec(t1); m > 6*q-2 {
						d = fmt.Sprintf("max=%d>6q-2=%d", m, 6*q-2)
					}
					c.Probe("nttlazy_range", fmt.Sprintf("%s %s %s", kind, hdr, Vec(a)), "C01/"+kind+"/NTTLazy-output-exceeds-6q-2", d)
					s.INTTLazy(a, t1)
					d = ""
					if m := maxVec(t1); m > 2*q-1 {
						d = fmt.Sprintf("max=%d>2q-1", m)
					}
					c.Probe("inttlazy_range", fmt.Sprintf("%s %s %s", kind, hdr, Vec(a)), "C01/"+kind+"/INTTLazy-output-exceeds-2q-1", d)
					if !ci && N <= 64 {
						b := patVec(r, c.pat(), N, q)
						ref := negacyclicRef(a, b, q)
						na, nb, nc := make([]uint64, N), make([]uint64, N), make([]uint64, N)
						s.NTT(a, na)
						s.NTT(b, nb)
						s.MForm(nb, nb)
						s.MulCoeffsMontgomery(na, nb, nc)
						s.INTT(nc, nc)
						d = ""
						if !eqVec(nc, ref) {
							d = "INTT(NTT(a)*NTT(b))!=a*b"
						}
						c.Probe("ntt_mul", fmt.Sprintf("%s %s %s %s", kind, hdr, Vec(a), Vec(b)), "C01/"+kind+"/NTT-not-multiplicative", d)
						if !probesOnly {
							c.Emit(fmt.Sprintf("rpmul %d %s %s", q, Vec(a), Vec(b)), Vec(nc))
						}
					}
				}
			}
		}
	}

	probeRingQP(c)

	// (3) multi-modulus Ring: automorphisms and monomials against the abstract layer (RPoly)
	for _, N := range []int{16, 32} {
		qs := primesFor(uint64(2*N), []int{20, 45, 60})
		if len(qs) > 3 {
			qs = qs[:3]
		}
		rg, err := ring.NewRing(N, qs)
		if err != nil {
			continue
		}
		for k := 0; k < c.Scale(6, 40); k++ {
			lvl := r.Intn(len(qs))
			rl := rg.AtLevel(lvl)
			p := rl.NewPoly()
			for i := 0; i <= lvl; i++ {
				copy(p.Coeffs[i], patVec(r, c.pat(), N, qs[i]))
			}
			rows := RawRows(p)[:lvl+1]
			gal := uint64(2*r.Intn(N)+1) | 1
			if r.Intn(3) == 0 {
				gal = ring.GaloisGen
			}
			if !probesOnly {
				o := rl.NewPoly()
				rl.Automorphism(p, gal, o)
				c.Emit(fmt.Sprintf("rpaut %s %d %s", Vec(qs[:lvl+1]), gal, Mat(rows)), Mat(Canon(rl, o, false, false)))
				pn := rl.NewPoly()
				rl.NTT(p, pn)
				rl.AutomorphismNTT(pn, gal, o)
				c.Emit(fmt.Sprintf("rpaut %s %d %s", Vec(qs[:lvl+1]), gal, Mat(rows)), Mat(Canon(rl, o, true, false)))
				idx, _ := ring.AutomorphismNTTIndex(N, uint64(2*N), gal)
				c.Emit(fmt.Sprintf("autidx %d %d %d", N, 2*N, gal), Vec(idx))
				kk := r.Intn(4*N) - 2*N
				// boundary exponents: 0, ±1, ±(N−1), ±N, ±(N+1), ±(2N−1), ±2N
				if bk := []int{0, 1, -1, N - 1, 1 - N, N, -N, N + 1, -N - 1, 2*N - 1, 1 - 2*N, 2 * N, -2 * N}; k < 2*len(bk) {
					kk = bk[k%len(bk)]
				}
				o2 := rl.NewPoly()
				out := Try(func() string { rl.MultByMonomial(p, kk, o2); return Mat(Canon(rl, o2, false, false)) })
				c.Emit(fmt.Sprintf("rpmono %s %d %s", Vec(qs[:lvl+1]), kk, Mat(rows)), out)
				if kk+2*N >= 0 {
					// property predicate: p·X^k in Z[X]/(X^N+1), k of any sign (integer reference)
					ref := make([][]uint64, lvl+1)
					for i := 0; i <= lvl; i++ {
						ref[i] = make([]uint64, N)
						for j := 0; j < N; j++ {
							e := ((j+kk)%(2*N) + 2*N) % (2 * N)
							v := rows[i][j] % qs[i]
							if e < N {
								ref[i][e] = v
							} else {
								ref[i][e-N] = (qs[i] - v) % qs[i]
							}
						}
					}
					d := ""
					if Mat(ref) != out {
						d = "MultByMonomial differs from p*X^k"
					}
					c.Probe("monomial_ref", fmt.Sprintf("%s %d %s", Vec(qs[:lvl+1]), kk, Mat(rows)), "C01/Ring.MultByMonomial/not-p-times-X^k", d)
				}
				c.Count("ring:aut+monomial")
				// Ring-level scalar operations against the abstract layer
				p2 := rl.NewPoly()
				for i := 0; i <= lvl; i++ {
					copy(p2.Coeffs[i], patVec(r, c.pat(), N, qs[i]))
				}
				rows2 := RawRows(p2)[:lvl+1]
				sc := r.U64()
				if r.Intn(3) == 0 {
					sc = r.Below(5)
				}
				bigS := new(big.Int).SetUint64(r.U64())
				bigS.Mul(bigS, new(big.Int).SetUint64(r.U64()))
				if r.Intn(2) == 0 {
					bigS.Neg(bigS)
				}
				type rop struct {
					name string
					arg  string
					f    func(out ring.Poly)
				}
				ops := []rop{
					{"MulScalar", U(sc), func(o ring.Poly) { rl.MulScalar(p, sc, o) }},
					{"MulScalarThenAdd", U(sc), func(o ring.Poly) { o.Copy(p2); rl.MulScalarThenAdd(p, sc, o) }},
					{"MulScalarThenSub", U(sc), func(o ring.Poly) { o.Copy(p2); rl.MulScalarThenSub(p, sc, o) }},
					{"AddScalar", U(sc), func(o ring.Poly) { rl.AddScalar(p, sc, o) }},
					{"SubScalar", U(sc), func(o ring.Poly) { rl.SubScalar(p, sc, o) }},
					{"MulScalarBigint", bigS.String(), func(o ring.Poly) { rl.MulScalarBigint(p, bigS, o) }},
					{"MulScalarBigintThenAdd", bigS.String(), func(o ring.Poly) { o.Copy(p2); rl.MulScalarBigintThenAdd(p, bigS, o) }},
					{"AddScalarBigint", bigS.String(), func(o ring.Poly) { rl.AddScalarBigint(p, bigS, o) }},
					{"SubScalarBigint", bigS.String(), func(o ring.Poly) { rl.SubScalarBigint(p, bigS, o) }},
					{"EvalPolyScalar", U(sc), func(o ring.Poly) { rl.EvalPolyScalar([]ring.Poly{p, p2, p}, sc, o) }},
					{"Add", "0", func(o ring.Poly) { rl.Add(p, p2, o) }},
					{"Sub", "0", func(o ring.Poly) { rl.Sub(p, p2, o) }},
					{"Neg", "0", func(o ring.Poly) { rl.Neg(p, o) }},
				}
				for _, op := range ops {
					o3 := rl.NewPoly()
					bs := new(big.Int).Set(bigS)
					out := Try(func() string { op.f(o3); return Mat(Canon(rl, o3, false, false)) })
					c.Emit(fmt.Sprintf("ringop %s %s %s %s %s", op.name, Vec(qs[:lvl+1]), op.arg, Mat(rows), Mat(rows2)), out)
					// the same against an integer reference (property predicate on the real code)
					if ref := ringopRef(op.name, op.arg, qs[:lvl+1], rows, rows2); ref != "" {
						dd := ""
						if ref != out {
							dd = "result not congruent to the integer reference"
						}
						c.Probe("ringop_ref", fmt.Sprintf("%s %s %s %s %s", op.name, Vec(qs[:lvl+1]), op.arg, Mat(rows), Mat(rows2)), "C01/Ring."+op.name+"/not-congruent", dd)
					}
					d := ""
					if bs.Cmp(bigS) != 0 {
						d = "big.Int argument modified"
					}
					c.Probe("ringop_arg_intact", op.name+" "+bs.String(), "C01/Ring."+op.name+"/bigint-argument-modified", d)
					c.Count("ringop:" + op.name)
				}
			}
		}
	}
}

// ringopRef computes the Ring-level scalar operations over the integers (math/big).
func ringopRef(name, arg string, qs []uint64, r1, r2 [][]uint64) string {
	k, ok := new(big.Int).SetString(arg, 10)
	if !ok {
		return ""
	}
	out := make([][]uint64, len(qs))
	for i, q := range qs {
		Q := bi(q)
		out[i] = make([]uint64, len(r1[i]))
		for j := range r1[i] {
			a, b := bi(r1[i][j]), bi(r2[i][j])
			var v *big.Int
			switch name {
			case "MulScalar", "MulScalarBigint":
				v = mul(a, k)
			case "MulScalarThenAdd", "MulScalarBigintThenAdd":
				v = add(b, mul(a, k))
			case "MulScalarThenSub":
				v = sub(b, mul(a, k))
			case "AddScalar", "AddScalarBigint":
				v = add(a, k)
			case "SubScalar", "SubScalarBigint":
				v = sub(a, k)
			case "EvalPolyScalar":
				v = add(mul(add(mul(a, k), b), k), a)
			case "Add":
				v = add(a, b)
			case "Sub":
				v = sub(a, b)
			case "Neg":
				v = new(big.Int).Neg(a)
			default:
				return ""
			}
			out[i][j] = new(big.Int).Mod(v, Q).Uint64()
		}
	}
	return Mat(out)
}
