package main

import (
	"github.com/tuneinsight/lattigo/v6/ring"
	"github.com/tuneinsight/lattigo/v6/utils/sampling"
)

// Canon returns the canonical rows of p at the ring's level: coefficient domain (INTT applied if
// isNTT), out of Montgomery form (IMForm applied if isMont), every coefficient reduced mod q_i.
// p is not modified.
func Canon(r *ring.Ring, p ring.Poly, isNTT, isMont bool) [][]uint64 {
	lvl := r.Level()
	if p.Level() < lvl {
		r = r.AtLevel(p.Level())
		lvl = p.Level()
	}
	t := r.NewPoly()
	for i := 0; i <= lvl; i++ {
		copy(t.Coeffs[i], p.Coeffs[i])
	}
	if isNTT {
		r.INTT(t, t)
	}
	if isMont {
		r.IMForm(t, t)
	}
	r.Reduce(t, t)
	out := make([][]uint64, lvl+1)
	for i := range out {
		out[i] = append([]uint64(nil), t.Coeffs[i]...)
	}
	return out
}

// Moduli of the ring at its current level.
func Moduli(r *ring.Ring) []uint64 { return r.ModuliChain()[:r.Level()+1] }

// TwinPRNG returns a generator producing the same stream as the lattigo-internal PRNG whose key
// was the i-th crypto/rand read since mark.
func TwinPRNG(mark, i int) *sampling.KeyedPRNG {
	keys := RandKeysSince(mark)
	p, err := sampling.NewKeyedPRNG(keys[i])
	if err != nil {
		panic(err)
	}
	return p
}

// RawRows copies the stored limbs as they are (lazy / NTT / Montgomery form untouched).
func RawRows(p ring.Poly) [][]uint64 {
	out := make([][]uint64, len(p.Coeffs))
	for i := range out {
		out[i] = append([]uint64(nil), p.Coeffs[i]...)
	}
	return out
}
