package main

// C04 — evaluation keys re-encrypt faithfully for every key parameterisation.
//
// Tie lines (the Lean model must reproduce the output exactly, canonical rows):
//   dims   : BaseRNSDecompositionVectorSize / BaseTwoDecompositionVectorSize
//   evk    : GenEvaluationKey / GenRelinearizationKey / GenGaloisKey (plain, compressed, expanded) from
//            the twin-replayed samples (a_ij, e_ij) and the secrets
//   gp,gpl : GadgetProduct, GadgetProductLazy
//   apply, relin, aut, auth, autl : ApplyEvaluationKey, Relinearize, Automorphism{,Hoisted,HoistedLazy}
// Probes (property predicates on the real code):
//   keyswitch_decrypts, relin_decrypts, automorphism_decrypts : decrypt under the target key, compare
//            with the (transformed) plaintext, noise within the bound implied by the decomposition
//   hoisted_eq_plain, expand_idempotent_shape, digit_count_covers_modulus

import (
	"fmt"
	"math/big"
	"math/bits"
	"os"

	"github.com/tuneinsight/lattigo/v6/core/rlwe"
	"github.com/tuneinsight/lattigo/v6/ring"
	"github.com/tuneinsight/lattigo/v6/ring/ringqp"
)

func init() { register("C04", genC04) }

var c04Debug = os.Getenv("VERIF_DEBUG") != ""

// c04BothDomains makes c04Scenario run every ciphertext operation once in and once out of the NTT domain.
var c04BothDomains = false

// c04RecvLP, when >= the key's LevelP, fixes the LevelP at which the lazy hoisted receivers are allocated
// (otherwise drawn at random in [key LevelP, max LevelP]).
var c04RecvLP = -1

func c04B2s(b bool) string {
	if b {
		return "1"
	}
	return "0"
}

func (ps *c04PS) hdr() string {
	return I(ps.N()) + " " + Vec(ps.Q) + " " + Vec(ps.P)
}

// ---------------------------------------------------------------------------------------------
// dims: digit counts, swept over primes on both sides of powers of two
// ---------------------------------------------------------------------------------------------

func c04Dims(c *Ctx) {
	nb := c.Scale(40, 400)
	for it := 0; it < nb; it++ {
		logN := 4 + c.rng.Intn(3)
		nQ := 1 + c.rng.Intn(4)
		nP := c.rng.Intn(3)
		bq := make([]int, nQ)
		for i := range bq {
			bq[i] = 20 + c.rng.Intn(36)
		}
		bp := make([]int, nP)
		for i := range bp {
			bp[i] = 20 + c.rng.Intn(36)
		}
		Q, P, ok := c04Primes(logN, bq, bp)
		if !ok {
			continue
		}
		ps, err := c04NewPS(logN, Q, P, true)
		if err != nil {
			c.Count("dims:params-rejected")
			continue
		}
		for rep := 0; rep < 6; rep++ {
			lq := c.rng.Intn(nQ)
			lp := c.rng.Intn(nP+1) - 1
			w := c.rng.Intn(31)
			c04EmitDims(c, ps, lq, lp, w)
		}
	}
}

func c04EmitDims(c *Ctx, ps *c04PS, lq, lp, w int) {
	out := Try(func() string {
		nI := ps.params.BaseRNSDecompositionVectorSize(lq, lp)
		b := ps.params.BaseTwoDecompositionVectorSize(lq, lp, w)
		return I(nI) + ";" + IVec(b)
	})
	c.Emit(fmt.Sprintf("dims %s %s %d %d %d", Vec(ps.Q), Vec(ps.P), lq, lp, w), out)
	c.Count("dims")
	// property predicate: the digits allotted to q_i must cover q_i (q_i <= 2^(w*n_i)), otherwise the
	// top bits of c mod q_i are dropped by the decomposition.
	if w > 0 && lp <= 0 {
		b := ps.params.BaseTwoDecompositionVectorSize(lq, lp, w)
		detail := ""
		for i := 0; i <= lq; i++ {
			if bits.Len64(ps.Q[i]-1) > w*b[i] {
				detail = fmt.Sprintf("q[%d]=%d bitlen=%d digits=%d*%d", i, ps.Q[i], bits.Len64(ps.Q[i]), b[i], w)
				break
			}
		}
		c.Probe("digit_count_covers_modulus", fmt.Sprintf("%s %d %d", Vec(ps.Q), lp, w), "C04-digitcount-roundlog2", detail)
	}
}

// ---------------------------------------------------------------------------------------------
// key generation ties
// ---------------------------------------------------------------------------------------------

type c04KeyCfg struct {
	lq, lp, w  int
	compressed bool
}

func (k c04KeyCfg) evkParams() rlwe.EvaluationKeyParameters {
	lq, lp, w := k.lq, k.lp, k.w
	return rlwe.EvaluationKeyParameters{LevelQ: &lq, LevelP: &lp, BaseTwoDecomposition: &w, Compressed: k.compressed}
}

// emitEvk emits the tie line(s) for one generated key. kind: gen|relin|gal. For compressed keys the key is
// expanded afterwards (and a second line ties the expanded key).
func c04EmitEvk(c *Ctx, ps *c04PS, tw *c04KgenTwin, kind string, cfg c04KeyCfg, galEl uint64, s, s2 []int64, evk *rlwe.EvaluationKey) {
	shape := c04EvkShape(evk)
	A, E, seed := tw.replayEvk(cfg.lq, cfg.lp, shape, cfg.compressed)
	s2s := "-"
	if s2 != nil {
		s2s = c04I64Vec(s2)
	}
	base := fmt.Sprintf("%s %s %d %d %d %d %s %s %s %s", kind, ps.hdr(), cfg.lq, cfg.lp, cfg.w, galEl, c04I64Vec(s), s2s, c04Polys(A), c04IVecs(E))
	comp := 0
	if cfg.compressed {
		comp = 1
		if evk.Seed == nil || string(evk.Seed[:]) != string(seed) {
			panic("c04: twin seed differs from the key's seed")
		}
	}
	c.Emit(fmt.Sprintf("evk %d %s", comp, base), IVec(shape)+"|"+c04Polys(ps.evkPolys(evk)))
	c.Count(fmt.Sprintf("evk:%s:comp%d", kind, comp))
	if cfg.compressed {
		A2 := tw.replayExpand(seed, cfg.lq, cfg.lp, shape)
		var buf *rlwe.GadgetCiphertext
		if c.rng.Intn(2) == 0 {
			buf = rlwe.NewGadgetCiphertext(ps.params, 0, cfg.lq, cfg.lp, cfg.w)
		}
		if err := evk.Expand(ps.params, buf); err != nil {
			c.Emit(fmt.Sprintf("evk 2 %s %s", base, c04Polys(A2)), "err")
			return
		}
		c.Emit(fmt.Sprintf("evk 2 %s %s", base, c04Polys(A2)), IVec(c04EvkShape(evk))+"|"+c04Polys(ps.evkPolys(evk)))
		c.Count(fmt.Sprintf("evk:%s:expanded", kind))
		// Expand twice must be refused (the key is no longer compressed)
		detail := ""
		if err := evk.Expand(ps.params, nil); err == nil {
			detail = "second Expand accepted"
		}
		c.Probe("expand_once", fmt.Sprintf("%s %d %d %d", ps.hdr(), cfg.lq, cfg.lp, cfg.w), "C04-expand-twice", detail)
	}
}

// ---------------------------------------------------------------------------------------------
// key switching ties + probes
// ---------------------------------------------------------------------------------------------

func (ps *c04PS) ksLine(op string, cfg c04KeyCfg, isNTT bool, galEl uint64, nbPi int, evk *rlwe.EvaluationKey, ctp [][][]uint64) string {
	return fmt.Sprintf("%s %s %d %d %d %s %d %d %s %s %s", op, ps.hdr(), cfg.lq, cfg.lp, cfg.w, c04B2s(isNTT), galEl, nbPi,
		IVec(c04EvkShape(evk)), c04Polys(ps.evkPolys(evk)), c04Polys(ctp))
}

// c04EmitKs emits the tie line, unless the real code refused or panicked on this (valid) input: that is a
// property violation in itself and is emitted as a failing probe.
func c04EmitKs(c *Ctx, ps *c04PS, cfg c04KeyCfg, op string, line string, res string) {
	if res == "panic" || res == "err" {
		key := "C04-" + op + "-" + res
		if cfg.lp == -1 && len(ps.P) > 0 {
			key = "C04-levelP-minus1-with-P-panics"
		}
		c.Probe("ks_completes", fmt.Sprintf("%s %s %d %d %d", op, ps.hdr(), cfg.lq, cfg.lp, cfg.w), key, op+" "+res)
		return
	}
	c.Emit(line, res)
}

func c04SmallVec(c *Ctx, n int, bound int64) []int64 {
	v := make([]int64, n)
	for i := range v {
		v[i] = int64(c.rng.Intn(int(2*bound+1))) - bound
	}
	return v
}

func c04Msg(c *Ctx, ps *c04PS, lvl int) []int64 {
	// message of up to ~18 bits (always far below Q/2 together with the admissible noise when the probe is
	// non-vacuous; vacuity is decided from the bound, not from the message)
	return c04SmallVec(c, ps.N(), 1<<17)
}

func (ps *c04PS) ctRows(c *Ctx, lvl int, mode int) [][]uint64 {
	if mode == 0 {
		return ps.randRows(c, lvl)
	}
	return ps.extremeRows(c, lvl, mode)
}

// probeNoise emits a decrypt-and-compare probe.
// c04Classify names the (formerly exhibited, now fixed: C04-1, C04-2) root cause a failing decrypt probe would
// fall under, so that a regression is triaged at once: digit count too small for some q_i at this level, or
// RNS digits of a key without P.
func c04Classify(ps *c04PS, cfg c04KeyCfg, lvl int, shape []int) string {
	if cfg.lp <= 0 && cfg.w > 0 {
		for i := 0; i <= lvl && i < len(shape); i++ {
			if bits.Len64(ps.Q[i]-1) > cfg.w*shape[i] {
				return "C04-digitcount-roundlog2"
			}
		}
	}
	if cfg.lp == -1 && cfg.w == 0 && lvl >= 1 {
		return "C04-noP-rns-digits-from-row0"
	}
	return ""
}

func c04ProbeNoise(c *Ctx, ps *c04PS, name string, args string, out *rlwe.Ciphertext, skT *rlwe.SecretKey, want []int64, bound *big.Int, class string) {
	lvl := out.Level()
	half := c04ProdBig(ps.Q[:lvl+1])
	half.Rsh(half, 1)
	// input noise <= 3, message <= 2^17: the test is meaningful iff bound + 3 + 2^17 < Q/2
	tot := new(big.Int).Add(bound, big.NewInt(3))
	lim := new(big.Int).Add(tot, big.NewInt(1<<17))
	if lim.Cmp(half) >= 0 {
		c.Count("probe-vacuous:" + name)
		return
	}
	got := ps.noiseOf(out, skT, want)
	detail := ""
	if got.Cmp(tot) > 0 {
		detail = fmt.Sprintf("noise=%s(bits=%d) bound=%s(bits=%d)", got.String(), got.BitLen(), tot.String(), tot.BitLen())
	}
	key := "C04-" + name
	if class != "" {
		key = class
	}
	c.Probe(name, args, key, detail)
}

func c04Scenario(c *Ctx, ps *c04PS, cfg c04KeyCfg, heavy bool) {
	N := ps.N()
	maxLQ := len(ps.Q) - 1
	_ = maxLQ
	kgenS := rlwe.NewKeyGenerator(ps.params)
	sk := kgenS.GenSecretKeyNew()
	sk2 := kgenS.GenSecretKeyNew()
	sI := ps.secretInts(sk)
	s2I := ps.secretInts(sk2)

	kgen, tw := c04NewKgenWithTwin(ps)
	args := fmt.Sprintf("%s %d %d %d %s", ps.hdr(), cfg.lq, cfg.lp, cfg.w, c04B2s(cfg.compressed))

	// ---- generic key sk -> sk2
	evk := kgen.GenEvaluationKeyNew(sk, sk2, cfg.evkParams())
	c04EmitEvk(c, ps, tw, "gen", cfg, 0, sI, s2I, evk)

	// ---- relinearisation key
	rlk := kgen.GenRelinearizationKeyNew(sk, cfg.evkParams())
	c04EmitEvk(c, ps, tw, "relin", cfg, 0, sI, nil, &rlk.EvaluationKey)

	// ---- Galois keys
	galEls := []uint64{ps.params.GaloisElement(1 + c.rng.Intn(N/2-1)), ps.params.GaloisElementOrderTwoOrthogonalSubgroup()}
	if heavy {
		galEls = append(galEls, ps.params.GaloisElement(-1-c.rng.Intn(3)))
	}
	{ // distinct elements only (the key set is a map: a second key for the same element would replace the first)
		seen := map[uint64]bool{}
		var d []uint64
		for _, g := range galEls {
			if !seen[g] && g != 1 {
				seen[g] = true
				d = append(d, g)
			}
		}
		galEls = d
	}
	gks := make([]*rlwe.GaloisKey, len(galEls))
	for i, g := range galEls {
		gks[i] = kgen.GenGaloisKeyNew(g, sk, cfg.evkParams())
		c04EmitEvk(c, ps, tw, "gal", cfg, g, sI, nil, &gks[i].EvaluationKey)
	}

	eval := rlwe.NewEvaluator(ps.params, rlwe.NewMemEvaluationKeySet(rlk, gks...))

	nct := 1
	if heavy || c04BothDomains {
		nct = 2
	}
	for rep := 0; rep < nct; rep++ {
		lvl := cfg.lq
		if (rep > 0 && !c04BothDomains) || c.rng.Intn(3) == 0 {
			lvl = c.rng.Intn(cfg.lq + 1)
		}
		isNTT := c.rng.Intn(2) == 0
		if c04BothDomains {
			isNTT = rep == 0
		}
		if c04ForceLvl >= 0 && c04ForceLvl <= cfg.lq {
			lvl = c04ForceLvl
		}
		mode := 0
		if c.rng.Intn(3) == 0 {
			mode = 1 + c.rng.Intn(4)
		}
		m := c04Msg(c, ps, lvl)
		e := c04SmallVec(c, N, 3)
		c.Count(fmt.Sprintf("ct:lvl%d-of-%d:ntt%s:mode%d", lvl, cfg.lq, c04B2s(isNTT), mode))
		bound := ps.ksNoiseBound(lvl, cfg.lp, cfg.w, c04EvkShape(evk))
		pargs := fmt.Sprintf("%s lvl=%d ntt=%s mode=%d", args, lvl, c04B2s(isNTT), mode)
		class := c04Classify(ps, cfg, lvl, c04EvkShape(evk))

		// ---- ApplyEvaluationKey sk -> sk2
		{
			ct := ps.mkCt(sk, m, e, [][][]uint64{ps.ctRows(c, lvl, mode)}, isNTT)
			in := ps.ctPolys(ct)
			out := rlwe.NewCiphertext(ps.params, 1, lvl)
			res := Try(func() string {
				if err := eval.ApplyEvaluationKey(ct, evk, out); err != nil {
					return "err"
				}
				return c04Polys(ps.ctPolys(out))
			})
			c04EmitKs(c, ps, cfg, "apply", ps.ksLine("apply", cfg, isNTT, 0, 0, evk, in), res)
			c.Count("ks:apply")
			if res != "err" && res != "panic" {
				c04ProbeNoise(c, ps, "keyswitch_decrypts", pargs, out, sk2, m, bound, class)
			}
			c04Recycled(c, ps, c04RecycleSpec{op: "apply", args: pargs, lvl: lvl, fresh: res, degs: []int{1},
				run:    func(o *rlwe.Ciphertext) error { return eval.ApplyEvaluationKey(ct, evk, o) },
				tieLow: func(lo int, r string) { c04EmitKs(c, ps, cfg, "apply", ps.ksLine("apply", cfg, isNTT, 0, 0, evk, c04Trunc(in, lo)), r) }}, isNTT)
			// direct GadgetProduct / GadgetProductLazy on c1
			if rep == 0 {
				c04GadgetProductTies(c, ps, eval, cfg, isNTT, evk, ct)
			}
		}

		// ---- Relinearize
		{
			ct := ps.mkCt(sk, m, e, [][][]uint64{ps.ctRows(c, lvl, 0), ps.ctRows(c, lvl, mode)}, isNTT)
			in := ps.ctPolys(ct)
			out := rlwe.NewCiphertext(ps.params, 1, lvl)
			res := Try(func() string {
				if err := eval.Relinearize(ct, out); err != nil {
					return "err"
				}
				return c04Polys(ps.ctPolys(out))
			})
			c04EmitKs(c, ps, cfg, "relin", ps.ksLine("relin", cfg, isNTT, 0, 0, &rlk.EvaluationKey, in), res)
			c.Count("ks:relin")
			if res != "err" && res != "panic" {
				c04ProbeNoise(c, ps, "relin_decrypts", pargs, out, sk, m, bound, class)
			}
			c04Recycled(c, ps, c04RecycleSpec{op: "relin", args: pargs, lvl: lvl, fresh: res, degs: []int{1, 2},
				run: func(o *rlwe.Ciphertext) error { return eval.Relinearize(ct, o) },
				tieLow: func(lo int, r string) {
					c04EmitKs(c, ps, cfg, "relin", ps.ksLine("relin", cfg, isNTT, 0, 0, &rlk.EvaluationKey, c04Trunc(in, lo)), r)
				}}, isNTT)
		}

		// ---- Automorphisms
		for gi, g := range galEls {
			ct := ps.mkCt(sk, m, e, [][][]uint64{ps.ctRows(c, lvl, mode)}, isNTT)
			in := ps.ctPolys(ct)
			want := c04ApplyAutInts(m, g)
			out := rlwe.NewCiphertext(ps.params, 1, lvl)
			res := Try(func() string {
				if err := eval.Automorphism(ct, g, out); err != nil {
					return "err"
				}
				return c04Polys(ps.ctPolys(out))
			})
			c04EmitKs(c, ps, cfg, "aut", ps.ksLine("aut", cfg, isNTT, g, 0, &gks[gi].EvaluationKey, in), res)
			c.Count("ks:aut")
			if res != "err" && res != "panic" {
				c04ProbeNoise(c, ps, "automorphism_decrypts", fmt.Sprintf("%s galEl=%d", pargs, g), out, sk, want, bound, class)
			}
			c04Recycled(c, ps, c04RecycleSpec{op: "aut", args: fmt.Sprintf("%s galEl=%d", pargs, g), lvl: lvl, fresh: res, degs: []int{1},
				run: func(o *rlwe.Ciphertext) error { return eval.Automorphism(ct, g, o) },
				tieLow: func(lo int, r string) {
					c04EmitKs(c, ps, cfg, "aut", ps.ksLine("aut", cfg, isNTT, g, 0, &gks[gi].EvaluationKey, c04Trunc(in, lo)), r)
				}}, isNTT)

			c04AutLazyNoP(c, ps, cfg, eval, ct, g, res, isNTT, pargs)
			if res != "err" && res != "panic" {
				c04AutMeta(c, ps, cfg, eval, ct, g, res, isNTT, pargs)
				if gi == 0 {
					// the identity element of the group: a plain copy, value AND metadata
					c04AutMeta(c, ps, cfg, eval, ct, 1, c04Polys(ps.ctPolysAt(ct, 1, lvl)), isNTT, pargs)
				}
			}

			// hoisted variants (the code supports them only for BaseTwoDecomposition == 0 and with a P)
			if cfg.w == 0 && cfg.lp >= 0 {
				nbPi := cfg.lp + 1
				outH := rlwe.NewCiphertext(ps.params, 1, lvl)
				resH := Try(func() string {
					eval.DecomposeNTT(lvl, cfg.lp, nbPi, ct.Value[1], ct.IsNTT, eval.BuffDecompQP)
					if err := eval.AutomorphismHoisted(lvl, ct, eval.BuffDecompQP, g, outH); err != nil {
						return "err"
					}
					return c04Polys(ps.ctPolys(outH))
				})
				c04EmitKs(c, ps, cfg, "auth", ps.ksLine("auth", cfg, isNTT, g, nbPi, &gks[gi].EvaluationKey, in), resH)
				c.Count("ks:auth")
				detail := ""
				if resH != res {
					detail = "hoisted output differs from plain output"
				}
				c.Probe("hoisted_eq_plain", fmt.Sprintf("%s galEl=%d", pargs, g), "C04-hoisted-neq-plain", detail)
				c04Recycled(c, ps, c04RecycleSpec{op: "auth", args: fmt.Sprintf("%s galEl=%d", pargs, g), lvl: lvl, fresh: resH, degs: []int{1}, explicit: true,
					run: func(o *rlwe.Ciphertext) error {
						eval.DecomposeNTT(lvl, cfg.lp, nbPi, ct.Value[1], ct.IsNTT, eval.BuffDecompQP)
						return eval.AutomorphismHoisted(lvl, ct, eval.BuffDecompQP, g, o)
					}}, isNTT)

				// lazy: result modulo QP, scaled by P. The receiver may be allocated at a HIGHER LevelP than the
				// key's (as ckks.RotateHoistedLazyNew, lintrans and inner sum do): only the key's levelP counts.
				rp := cfg.lp + c.rng.Intn(len(ps.P)-cfg.lp)
				if c04RecvLP >= cfg.lp && c04RecvLP < len(ps.P) {
					rp = c04RecvLP
				}
				c.Count(fmt.Sprintf("hoistedlazy:keyLP%d:recvLP%d:maxLP%d", cfg.lp, rp, len(ps.P)-1))
				ctQP := &rlwe.Element[ringqp.Poly]{}
				ctQP.Value = []ringqp.Poly{ps.params.RingQP().AtLevel(lvl, rp).NewPoly(), ps.params.RingQP().AtLevel(lvl, rp).NewPoly()}
				ctQP.MetaData = ct.MetaData.CopyNew()
				resL := Try(func() string {
					eval.DecomposeNTT(lvl, cfg.lp, nbPi, ct.Value[1], ct.IsNTT, eval.BuffDecompQP)
					if err := eval.AutomorphismHoistedLazy(lvl, ct, eval.BuffDecompQP, g, ctQP); err != nil {
						return "err"
					}
					return c04Polys([][][]uint64{
						ps.canonQP(ctQP.Value[0], lvl, cfg.lp, isNTT, false),
						ps.canonQP(ctQP.Value[1], lvl, cfg.lp, isNTT, false)})
				})
				c04EmitKs(c, ps, cfg, "autl", ps.ksLine("autl", cfg, isNTT, g, nbPi, &gks[gi].EvaluationKey, in), resL)
				c.Count("ks:autl")
				if resL != "err" && resL != "panic" {
					// division by the KEY's P afterwards: must decrypt to sigma(m) and equal the model
					outM := rlwe.NewCiphertext(ps.params, 1, lvl)
					*outM.MetaData = *ct.MetaData
					resM := Try(func() string {
						eval.ModDown(lvl, cfg.lp, ctQP, outM)
						return c04Polys(ps.ctPolys(outM))
					})
					c04EmitKs(c, ps, cfg, "autlmd", ps.ksLine("autlmd", cfg, isNTT, g, nbPi, &gks[gi].EvaluationKey, in), resM)
					c.Count("ks:autlmd")
					if resM != "err" && resM != "panic" {
						c04ProbeNoise(c, ps, "automorphism_lazy_decrypts", fmt.Sprintf("%s galEl=%d recvLP=%d", pargs, g, rp), outM, sk, want, bound, class)
					}
					// the same into a junk-filled ctQP at higher LevelQ / LevelP, then ModDown into a junk receiver
					if resM != "err" && resM != "panic" {
						hq := lvl + c.rng.Intn(len(ps.Q)-lvl)
						hp := cfg.lp + c.rng.Intn(len(ps.P)-cfg.lp)
						j := &rlwe.Element[ringqp.Poly]{}
						j.Value = []ringqp.Poly{ps.c04JunkQP(c, hq, hp), ps.c04JunkQP(c, hq, hp)}
						j.MetaData = ct.MetaData.CopyNew()
						var gotL string
						c04Recycled(c, ps, c04RecycleSpec{op: "autlmd", args: fmt.Sprintf("%s galEl=%d junkQP=%d,%d", pargs, g, hq, hp), lvl: lvl, fresh: resM, degs: []int{1}, noResize: true,
							run: func(o *rlwe.Ciphertext) error {
								eval.DecomposeNTT(lvl, cfg.lp, nbPi, ct.Value[1], ct.IsNTT, eval.BuffDecompQP)
								if err := eval.AutomorphismHoistedLazy(lvl, ct, eval.BuffDecompQP, g, j); err != nil {
									return err
								}
								gotL = c04Polys([][][]uint64{ps.canonQP(j.Value[0], lvl, cfg.lp, isNTT, false), ps.canonQP(j.Value[1], lvl, cfg.lp, isNTT, false)})
								eval.ModDown(lvl, cfg.lp, j, o)
								return nil
							}}, isNTT)
						if gotL != "" {
							d := ""
							if gotL != resL {
								d = "lazy result in a junk receiver differs from the fresh-receiver result"
							}
							c.Probe("receiver_recycled", fmt.Sprintf("autl junkQP=%d,%d %s galEl=%d", hq, hp, pargs, g), "C04-recycled-receiver-autl", d)
						}
					}
				}
			}
		}
	}
}

func c04GadgetProductTies(c *Ctx, ps *c04PS, eval *rlwe.Evaluator, cfg c04KeyCfg, isNTT bool, evk *rlwe.EvaluationKey, ct *rlwe.Ciphertext) {
	lvl := ct.Level()
	in := [][][]uint64{ps.canonQ(ct.Value[1], lvl, isNTT, false)}
	out := rlwe.NewCiphertext(ps.params, 1, lvl)
	out.IsNTT = isNTT
	res := Try(func() string {
		eval.GadgetProduct(lvl, ct.Value[1], &evk.GadgetCiphertext, out)
		return c04Polys(ps.ctPolys(out))
	})
	c04EmitKs(c, ps, cfg, "gp", ps.ksLine("gp", cfg, isNTT, 0, 0, evk, in), res)
	c.Count("ks:gp")
	c04LazyWordTie(c, ps, cfg, evk, ct)
	c04LazyModDown(c, ps, eval, cfg, isNTT, evk, ct, res)
	gargs := fmt.Sprintf("%s %d %d %d lvl=%d ntt=%s", ps.hdr(), cfg.lq, cfg.lp, cfg.w, lvl, c04B2s(isNTT))
	c04Recycled(c, ps, c04RecycleSpec{op: "gp", args: gargs, lvl: lvl, fresh: res, degs: []int{1}, noResize: true,
		run: func(o *rlwe.Ciphertext) error { eval.GadgetProduct(lvl, ct.Value[1], &evk.GadgetCiphertext, o); return nil }}, isNTT)
	// lazy receivers (mod QP) filled with junk, at a higher LevelQ / LevelP
	junkQP := func(op string, fresh string, run func(q *rlwe.Element[ringqp.Poly]) error) {
		if cfg.lp < 0 || fresh == "err" || fresh == "panic" {
			return
		}
		hq := lvl + c.rng.Intn(len(ps.Q)-lvl)
		hp := cfg.lp + c.rng.Intn(len(ps.P)-cfg.lp)
		j := &rlwe.Element[ringqp.Poly]{}
		j.Value = []ringqp.Poly{ps.c04JunkQP(c, hq, hp), ps.c04JunkQP(c, hq, hp)}
		j.MetaData = ct.MetaData.CopyNew()
		got := Try(func() string {
			if err := run(j); err != nil {
				return "err"
			}
			return c04Polys([][][]uint64{ps.canonQP(j.Value[0], lvl, cfg.lp, isNTT, false), ps.canonQP(j.Value[1], lvl, cfg.lp, isNTT, false)})
		})
		d := ""
		if got != fresh {
			d = "result in a junk receiver differs from the fresh-receiver result"
		}
		c.Probe("receiver_recycled", fmt.Sprintf("%s junkQP=%d,%d %s", op, hq, hp, gargs), "C04-recycled-receiver-"+op, d)
		c.Count("recycled:" + op)
	}

	if cfg.lp >= 0 {
		ctQP := &rlwe.Element[ringqp.Poly]{}
		ctQP.Value = []ringqp.Poly{ps.params.RingQP().AtLevel(lvl, cfg.lp).NewPoly(), ps.params.RingQP().AtLevel(lvl, cfg.lp).NewPoly()}
		ctQP.MetaData = ct.MetaData.CopyNew()
		resL := Try(func() string {
			if err := eval.GadgetProductLazy(lvl, ct.Value[1], &evk.GadgetCiphertext, ctQP); err != nil {
				return "err"
			}
			return c04Polys([][][]uint64{
				ps.canonQP(ctQP.Value[0], lvl, cfg.lp, isNTT, false),
				ps.canonQP(ctQP.Value[1], lvl, cfg.lp, isNTT, false)})
		})
		c04EmitKs(c, ps, cfg, "gpl", ps.ksLine("gpl", cfg, isNTT, 0, 0, evk, in), resL)
		c.Count("ks:gpl")
		junkQP("gpl", resL, func(q *rlwe.Element[ringqp.Poly]) error {
			return eval.GadgetProductLazy(lvl, ct.Value[1], &evk.GadgetCiphertext, q)
		})
	}

	// hoisted products on the digits of DecomposeNTT; the lazy receiver at a LevelP >= the key's
	if cfg.lp >= 0 && cfg.w == 0 {
		nbPi := cfg.lp + 1
		outH := rlwe.NewCiphertext(ps.params, 1, lvl)
		outH.IsNTT = isNTT
		resH := Try(func() string {
			eval.DecomposeNTT(lvl, cfg.lp, nbPi, ct.Value[1], isNTT, eval.BuffDecompQP)
			eval.GadgetProductHoisted(lvl, eval.BuffDecompQP, &evk.GadgetCiphertext, outH)
			return c04Polys(ps.ctPolys(outH))
		})
		c04EmitKs(c, ps, cfg, "gph", ps.ksLine("gph", cfg, isNTT, 0, nbPi, evk, in), resH)
		c.Count("ks:gph")
		c04Recycled(c, ps, c04RecycleSpec{op: "gph", args: gargs, lvl: lvl, fresh: resH, degs: []int{1}, noResize: true,
			run: func(o *rlwe.Ciphertext) error {
				eval.DecomposeNTT(lvl, cfg.lp, nbPi, ct.Value[1], isNTT, eval.BuffDecompQP)
				eval.GadgetProductHoisted(lvl, eval.BuffDecompQP, &evk.GadgetCiphertext, o)
				return nil
			}}, isNTT)
		detail := ""
		if resH != res {
			detail = "GadgetProductHoisted differs from GadgetProduct"
		}
		c.Probe("hoisted_eq_plain", fmt.Sprintf("%s %d %d gp lvl=%d ntt=%s", ps.hdr(), cfg.lq, cfg.lp, lvl, c04B2s(isNTT)), "C04-hoisted-neq-plain", detail)

		rp := cfg.lp + c.rng.Intn(len(ps.P)-cfg.lp)
		if c04RecvLP >= cfg.lp && c04RecvLP < len(ps.P) {
			rp = c04RecvLP
		}
		ctQP := &rlwe.Element[ringqp.Poly]{}
		ctQP.Value = []ringqp.Poly{ps.params.RingQP().AtLevel(lvl, rp).NewPoly(), ps.params.RingQP().AtLevel(lvl, rp).NewPoly()}
		ctQP.MetaData = ct.MetaData.CopyNew()
		resHL := Try(func() string {
			eval.DecomposeNTT(lvl, cfg.lp, nbPi, ct.Value[1], isNTT, eval.BuffDecompQP)
			if err := eval.GadgetProductHoistedLazy(lvl, eval.BuffDecompQP, &evk.GadgetCiphertext, ctQP); err != nil {
				return "err"
			}
			return c04Polys([][][]uint64{
				ps.canonQP(ctQP.Value[0], lvl, cfg.lp, isNTT, false),
				ps.canonQP(ctQP.Value[1], lvl, cfg.lp, isNTT, false)})
		})
		c04EmitKs(c, ps, cfg, "gphl", ps.ksLine("gphl", cfg, isNTT, 0, nbPi, evk, in), resHL)
		c.Count("ks:gphl")
		junkQP("gphl", resHL, func(q *rlwe.Element[ringqp.Poly]) error {
			eval.DecomposeNTT(lvl, cfg.lp, nbPi, ct.Value[1], isNTT, eval.BuffDecompQP)
			return eval.GadgetProductHoistedLazy(lvl, eval.BuffDecompQP, &evk.GadgetCiphertext, q)
		})
	}
}

// ---------------------------------------------------------------------------------------------
// generator
// ---------------------------------------------------------------------------------------------

func c04RandomPS(c *Ctx, logN, nQ, nP int) *c04PS {
	for try := 0; try < 20; try++ {
		bq := make([]int, nQ)
		for i := range bq {
			bq[i] = 20 + c.rng.Intn(36)
		}
		bp := make([]int, nP)
		for i := range bp {
			bp[i] = 20 + c.rng.Intn(36)
		}
		Q, P, ok := c04Primes(logN, bq, bp)
		if !ok {
			continue
		}
		// secret distribution: ternary (density / Hamming weight) and Gaussian (non-ternary) secrets
		c04XsChoice = c.rng.Intn(5)
		ps, err := c04NewPS(logN, Q, P, c.rng.Intn(2) == 0)
		c04XsChoice = 0
		if err == nil {
			c.Count(fmt.Sprintf("xs:%d", ps.xs))
			return ps
		}
	}
	panic("c04: could not build a parameter set")
}

func c04RandomCfg(c *Ctx, ps *c04PS) c04KeyCfg {
	nQ, nP := len(ps.Q), len(ps.P)
	cfg := c04KeyCfg{lq: nQ - 1, lp: nP - 1}
	if c.rng.Intn(3) == 0 {
		cfg.lq = c.rng.Intn(nQ)
	}
	if nP > 0 && c.rng.Intn(3) == 0 {
		cfg.lp = c.rng.Intn(nP+1) - 1 // -1 .. nP-1 (a key without P although the parameters have one)
	}
	if c.rng.Intn(2) == 0 {
		cfg.w = 1 + c.rng.Intn(30)
	}
	cfg.compressed = c.rng.Intn(3) == 0
	return cfg
}

func genC04(c *Ctx) {
	c04Dims(c)
	c04DimsSweep(c)
	c04Witness(c)
	c04LargePrimes(c)
	c04HoistedLevels(c)
	c04RecycleLevels(c)
	c04DerivedKeys(c)
	c04AutKeySets(c)
	c04ForeignKeys(c)
	c04Malformed(c)
	c04DegreeSwitch(c)
	c04Packing(c)

	// structured sweep: every (#Q, #P) shape at least once, LogN 4..6
	type shape struct{ nQ, nP int }
	var shapes []shape
	for nQ := 1; nQ <= 4; nQ++ {
		for nP := 0; nP <= 3; nP++ {
			shapes = append(shapes, shape{nQ, nP})
		}
	}
	rounds := c.Scale(3, 30)
	for r := 0; r < rounds; r++ {
		for _, sh := range shapes {
			logN := 4
			switch c.rng.Intn(6) {
			case 0, 1:
				logN = 5
			case 2:
				if c.Thorough() {
					logN = 6
				}
			}
			ps := c04RandomPS(c, logN, sh.nQ, sh.nP)
			cfg := c04RandomCfg(c, ps)
			if logN == 6 && cfg.w != 0 && cfg.w < 8 {
				cfg.w += 8 // keep the lines of the largest ring manageable
			}
			c.Count(fmt.Sprintf("params:logN%d:Q%d:P%d", logN, sh.nQ, sh.nP))
			c.Count(fmt.Sprintf("cfg:lq%d/%d:lp%d/%d:w%d:comp%s", cfg.lq, sh.nQ-1, cfg.lp, sh.nP-1, cfg.w, c04B2s(cfg.compressed)))
			c04Scenario(c, ps, cfg, c.Thorough() && r%2 == 1)
		}
	}
}

var _ = ring.Standard

// c04Witness runs the full scenario on the parameter sets that exhibited the three C04 defects before the
// fixes C04-1/2/3 (the probes stay as regression checks and must hold):
// primes just above 2^30 (round(log2 q) = 30 but bitlen = 31) with bases dividing 30 and one that does not;
func c04Witness(c *Ctx) {
	Q := []uint64{1207959937, 1207960801}
	_, P, ok := c04Primes(4, nil, []int{36})
	if !ok {
		return
	}
	for _, nP := range []int{1, 0} {
		ps, err := c04NewPS(4, Q, P[:nP], true)
		if err != nil {
			c.Count("witness:params-rejected")
			return
		}
		for _, w := range []int{10, 15, 16} {
			c04EmitDims(c, ps, 1, nP-1, w)
			c.Count(fmt.Sprintf("witness:P%d:w%d", nP, w))
			c04Scenario(c, ps, c04KeyCfg{lq: 1, lp: nP - 1, w: w}, false)
		}
	}
	// second and third witnesses: a key WITHOUT P and BaseTwoDecomposition = 0 over two primes
	// (a) the parameters have no P at all (pre-fix: every RNS digit was read from row 0);
	// (b) the parameters have a P but the key is generated at LevelP = -1 (pre-fix: GadgetProduct panicked).
	Q2, P2, ok := c04Primes(4, []int{31, 33}, []int{35})
	if !ok {
		return
	}
	if ps, err := c04NewPS(4, Q2, nil, true); err == nil {
		c.Count("witness:noP:w0")
		c04Scenario(c, ps, c04KeyCfg{lq: 1, lp: -1, w: 0}, false)
	}
	if ps, err := c04NewPS(4, Q2, P2, true); err == nil {
		for _, w := range []int{0, 12} {
			c.Count(fmt.Sprintf("witness:P-present-key-levelP-1:w%d", w))
			c04Scenario(c, ps, c04KeyCfg{lq: 1, lp: -1, w: w}, false)
		}
	}
}

// ---------------------------------------------------------------------------------------------
// malformed / boundary stream: calls the API must refuse (error or panic), never accept silently
// ---------------------------------------------------------------------------------------------

func c04Rejects(c *Ctx, what string, args string, f func() error) {
	accepted := false
	func() {
		defer func() { _ = recover() }()
		if err := f(); err == nil {
			accepted = true
		}
	}()
	detail := ""
	if accepted {
		detail = what + " accepted"
	}
	c.Probe("rejects_malformed", what+" "+args, "C04-accepts-"+what, detail)
	c.Count("malformed:" + what)
}

func c04Malformed(c *Ctx) {
	rounds := c.Scale(2, 10)
	for r := 0; r < rounds; r++ {
		nQ := 2 + c.rng.Intn(3)
		nP := 1 + c.rng.Intn(2)
		ps := c04RandomPS(c, 4, nQ, nP)
		N := ps.N()
		kgen := rlwe.NewKeyGenerator(ps.params)
		sk := kgen.GenSecretKeyNew()
		args := ps.hdr()
		w := 1 + c.rng.Intn(30)
		lq, lp := nQ-1, nP-1

		plain := kgen.GenEvaluationKeyNew(sk, sk)
		c04Rejects(c, "expand-uncompressed", args, func() error { return plain.Expand(ps.params, nil) })

		comp := kgen.GenEvaluationKeyNew(sk, sk, rlwe.EvaluationKeyParameters{Compressed: true})
		c04Rejects(c, "expand-buffer-degree1", args, func() error {
			return comp.Expand(ps.params, rlwe.NewGadgetCiphertext(ps.params, 1, lq, lp, 0))
		})
		if lq > 0 {
			c04Rejects(c, "expand-buffer-levelQ", args, func() error {
				return comp.Expand(ps.params, rlwe.NewGadgetCiphertext(ps.params, 0, lq-1, lp, 0))
			})
		}
		if lp > 0 {
			c04Rejects(c, "expand-buffer-levelP", args, func() error {
				return comp.Expand(ps.params, rlwe.NewGadgetCiphertext(ps.params, 0, lq, lp-1, 0))
			})
		}
		{
			seed := comp.Seed
			comp.Seed = nil
			c04Rejects(c, "expand-no-seed", args, func() error { return comp.Expand(ps.params, nil) })
			comp.Seed = seed
		}

		rlk := kgen.GenRelinearizationKeyNew(sk)
		g := ps.params.GaloisElement(1)
		gk := kgen.GenGaloisKeyNew(g, sk)
		eval := rlwe.NewEvaluator(ps.params, rlwe.NewMemEvaluationKeySet(rlk, gk))
		evalNoKeys := rlwe.NewEvaluator(ps.params, rlwe.NewMemEvaluationKeySet(nil))
		m := c04Msg(c, ps, lq)
		e := c04SmallVec(c, N, 3)
		ct1 := ps.mkCt(sk, m, e, [][][]uint64{ps.randRows(c, lq)}, true)
		ct2 := ps.mkCt(sk, m, e, [][][]uint64{ps.randRows(c, lq), ps.randRows(c, lq)}, true)
		out := rlwe.NewCiphertext(ps.params, 1, lq)

		c04Rejects(c, "apply-degree2-input", args, func() error { return eval.ApplyEvaluationKey(ct2, plain, out) })
		c04Rejects(c, "relin-degree1-input", args, func() error { return eval.Relinearize(ct1, out) })
		c04Rejects(c, "relin-missing-key", args, func() error { return evalNoKeys.Relinearize(ct2, out) })
		c04Rejects(c, "aut-missing-key", args, func() error {
			return eval.Automorphism(ct1, ps.params.GaloisElement(2), out)
		})
		c04Rejects(c, "aut-degree2-input", args, func() error { return eval.Automorphism(ct2, g, out) })

		// hoisted product with a power-of-two decomposition is documented as unsupported
		gkw := kgen.GenGaloisKeyNew(g, sk, rlwe.EvaluationKeyParameters{LevelQ: &lq, LevelP: new(int), BaseTwoDecomposition: &w})
		evalW := rlwe.NewEvaluator(ps.params, rlwe.NewMemEvaluationKeySet(nil, gkw))
		c04Rejects(c, "hoisted-with-base2", args, func() error {
			evalW.DecomposeNTT(lq, 0, 1, ct1.Value[1], true, evalW.BuffDecompQP)
			ctQP := &rlwe.Element[ringqp.Poly]{}
			ctQP.Value = []ringqp.Poly{ps.params.RingQP().AtLevel(lq, 0).NewPoly(), ps.params.RingQP().AtLevel(lq, 0).NewPoly()}
			ctQP.MetaData = ct1.MetaData.CopyNew()
			return evalW.GadgetProductHoistedLazy(lq, evalW.BuffDecompQP, &gkw.GadgetCiphertext, ctQP)
		})

		// identity automorphism: plain copy, bit for bit
		{
			o := rlwe.NewCiphertext(ps.params, 1, lq)
			detail := ""
			if err := eval.Automorphism(ct1, 1, o); err != nil {
				detail = "galEl=1 refused"
			} else if c04Polys(ps.ctPolys(o)) != c04Polys(ps.ctPolys(ct1)) {
				detail = "galEl=1 is not the identity"
			}
			c.Probe("aut_identity", args, "C04-aut-identity", detail)
		}

		// out-of-range levels for a new key must not be accepted
		c04Rejects(c, "evk-levelQ-too-large", args, func() error {
			l := nQ
			_ = kgen.GenEvaluationKeyNew(sk, sk, rlwe.EvaluationKeyParameters{LevelQ: &l})
			return nil
		})
		c04Rejects(c, "evk-levelP-too-large", args, func() error {
			l := nP
			_ = kgen.GenEvaluationKeyNew(sk, sk, rlwe.EvaluationKeyParameters{LevelP: &l})
			return nil
		})
	}
}

// c04DimsSweep: primes immediately above and below 2^k, bases dividing k and not.
func c04DimsSweep(c *Ctx) {
	step := c.Scale(5, 1)
	for k := 20; k <= 55; k += step {
		g := ring.NewNTTFriendlyPrimesGenerator(uint64(k), 32)
		up, err1 := g.NextUpstreamPrime()
		dn, err2 := g.NextDownstreamPrime()
		if err1 != nil || err2 != nil {
			continue
		}
		for _, q := range []uint64{up, dn} {
			for _, nP := range []int{0, 1} {
				var P []uint64
				if nP == 1 {
					_, P, _ = c04Primes(4, nil, []int{30})
					if P[0] == q {
						continue
					}
				}
				ps, err := c04NewPS(4, []uint64{q}, P, true)
				if err != nil {
					continue
				}
				for w := 1; w <= 30; w++ {
					if c.Thorough() || k%w == 0 || w == 7 || w == 16 {
						c04EmitDims(c, ps, 0, nP-1, w)
					}
				}
			}
		}
	}
}
